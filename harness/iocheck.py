"""Engine shared by the io audit properties (C01, C02, C03, C11, C13): runs generated archives through the Lean
model (driver op io.load) and through the real skops.io under instrumentation, compares, and evaluates the
property oracles on the implementation."""
from __future__ import annotations

import collections
import io
import json
import os
import tempfile
import time

from . import ioarch, iogen
from .common import Ctx

FIXED = {"numpy.random.bit_generator.SeedSequence"}
GUARDED_MODULES = {"numpy.random"}


def real_dumps(rng):
    """archives written by the real dump of ordinary objects (valid, well-typed)"""
    import numpy as np
    from sklearn.linear_model import LogisticRegression, SGDClassifier
    from sklearn.pipeline import Pipeline
    from sklearn.preprocessing import FunctionTransformer, StandardScaler
    from sklearn.tree import DecisionTreeClassifier
    from skops.io import dumps
    from collections import OrderedDict, defaultdict
    from functools import partial
    import operator

    X = np.array([[0.0, 1.0], [1.0, 0.0], [1.0, 1.0], [0.0, 0.0]] * 3)
    y = np.array([0, 1, 1, 0] * 3)
    objs = [
        {"a": [1, 2.5, None, "x"], "b": (1, 2), 3: {1, 2}},
        [np.arange(4), np.array([[1.5, 2], [3, 4]]), np.int64(3), np.float32(1.5)],
        OrderedDict(a=1, b=[1]), defaultdict(list, {"k": [1]}),
        LogisticRegression().fit(X, y), DecisionTreeClassifier(max_depth=2).fit(X, y),
        Pipeline([("s", StandardScaler()), ("c", SGDClassifier(max_iter=5, tol=None, random_state=0))]).fit(X, y),
        FunctionTransformer(np.sqrt), partial(np.add, 1), operator.itemgetter(1), slice(1, 5, 2),
        np.random.RandomState(3), np.random.default_rng(4), bytes(b"ab"), bytearray(b"cd"),
        np.array([1, "a", None], dtype=object), np.ma.MaskedArray([1, 2], [0, 1]), np.dtype("float32"),
        [np.arange(3)] * 2, StandardScaler().fit(X).transform, len, np.sum, type(3),
    ]
    out = []
    for o in objs:
        try:
            out.append(dumps(o))
        except Exception:
            pass
    return out


def mutate_schema(rng, schema):
    """rename one name / rewire one id / change the protocol of a valid schema"""
    nodes = []

    def rec(s):
        if isinstance(s, dict):
            if "__loader__" in s:
                nodes.append(s)
            for v in s.values():
                rec(v)
        elif isinstance(s, list):
            for v in s:
                rec(v)

    rec(schema)
    if not nodes:
        return schema
    n = rng.choice(nodes)
    r = rng.random()
    if r < 0.4:
        n["__module__"], n["__class__"] = rng.choice(iogen.UNTRUSTED_REAL + [("verif_canary_dyn_9%d" % rng.randint(0, 99), "Boom")])
    elif r < 0.6:
        n["__id__"] = rng.choice([x.get("__id__") for x in nodes])
    elif r < 0.75:
        schema["protocol"] = rng.choice(iogen.PROTOCOLS)
    elif r < 0.9:
        n["__class__"] = str(n.get("__class__")) + rng.choice(["x", ".x", "_"])
    else:
        n["__loader__"] = rng.choice(["TypeNode", "FunctionNode", "ObjectNode", "ListNode"])
    return schema


def subseq(impl, model, recursion=False):
    def match(e, m):
        if m["e"] in ("resolve",):
            return e == m["name"]
        if m["e"] == "resolveIn":
            return e is None or e.startswith(m["module"] + ".")
        return False

    if recursion:
        return all(any(match(e, m) for m in model) for e in set(impl))
    j = 0
    for e in impl:
        ok = False
        while j < len(model):
            m = model[j]
            j += 1
            if match(e, m):
                ok = True
                break
        if not ok:
            return False
    return True


def cmp_dump(md, idump, T, defaults):
    if len(md) != len(idump):
        return f"tree size {len(md)} vs {len(idump)}"
    for a, b in zip(md, idump):
        for f in ("d", "slot", "t"):
            if a.get(f) != b.get(f):
                return f"field {f}: model {a} impl {b}"
        if a["t"] == "node":
            if (a["cls"], a["mod"], a["name"]) != (b["cls"], b["mod"], b["name"]):
                return f"node: model {a['cls']} {a['mod']}.{a['name']} impl {b['cls']} {b['mod']}.{b['name']}"
            exp = set(T or []) | set(a["extra"]) | defaults.get(a["cls"], set())
            if isinstance(b["trusted"], list) and set(b["trusted"]) != exp:
                d = sorted(set(b["trusted"]) ^ exp)[:4]
                return f"trusted list of {a['cls']} differs in {d}"
            if a.get("label") != b.get("label") or a.get("grp") != b.get("grp"):
                return f"label/grp: model {a} impl {b}"
        if a["t"] == "ref" and a["idx"] != b["idx"]:
            return f"ref: model {a} impl {b}"
        if a["t"] == "raw" and a["v"] != b["v"]:
            return f"raw: model {a} impl {b}"
    return None


class Case:
    __slots__ = ("schema", "members", "data", "unt", "Ts", "origin")


def build_cases(ctx: Ctx, n, fx):
    rng = ctx.rng
    g = iogen.Gen(rng, fx)
    cases = []
    bases = real_dumps(rng)
    for i in range(n):
        c = Case()
        r = rng.random()
        if r < 0.75:
            schema, members = g.archive(trusted_bias=rng.choice([0.3, 0.6, 0.9]))
            c.origin = "grammar"
        else:
            data = rng.choice(bases)
            schema, names = ioarch.read_schema(data)
            import zipfile

            with zipfile.ZipFile(io.BytesIO(data)) as z:
                members = {nm: z.read(nm) for nm in names}
            if rng.random() < 0.7:
                schema = mutate_schema(rng, schema)
                c.origin = "dump+mutation"
            else:
                c.origin = "dump"
        c.schema, c.members = schema, members
        c.data = ioarch.make_zip(schema, members)
        c.unt = ioarch.impl_untrusted(c.data)
        Ts = [None, []]
        if "ok" in c.unt and c.unt["ok"]:
            full = list(c.unt["ok"])
            if len(full) > 1:
                # the refused loads come first: an accepted load imports what it was allowed to, and would hide a later
                # refused load that imports the same module before its verdict
                Ts.append(full[1:])
                Ts.append(full[:-1])
                Ts.append(full)
                Ts.append(list(reversed(full)) + [full[0], "junk.name"])
            else:
                Ts.append(full)
                Ts.append(full + ["another.name"])
        c.Ts = Ts
        cases.append(c)
    return cases


def run_engine(ctx: Ctx, n, want_visualize=False):
    """returns dict(stats, mismatches, observations) ; observations are per-(case, T) impl results for the oracles"""
    ioarch.install_canaries()
    fx = iogen.facts()
    defaults = {k["cls"]: set(k["trust"].get("defaults") or []) for k in fx["kinds"]}
    all_defaults = set()
    for k in fx["kinds"]:
        all_defaults |= set(k["trust"].get("defaults") or [])
        for v in k.get("variants") or []:
            for s in v.get("slots") or []:
                if isinstance(s.get("child_trust"), list):
                    all_defaults |= set(s["child_trust"])
    cases = build_cases(ctx, n, fx)
    req = [dict(op="io.load", schema=ioarch.enc(c.schema), members=list(c.members), trusted=[t or [] for t in c.Ts], fuel=400)
           for c in cases]
    mo = ctx.driver.run(req)
    stats = collections.Counter()
    mism, obs = [], []
    kinds_seen = collections.Counter()
    for c, m in zip(cases, mo):
        stats["origin-" + c.origin] += 1
        try:
            idump, ierr = ioarch.impl_tree_dump(c.data, None), None
        except RecursionError:
            idump, ierr = None, "RecursionError"
        except Exception as ex:
            idump, ierr = None, type(ex).__name__
        if idump:
            for row in idump:
                if row["t"] == "node":
                    kinds_seen[row["cls"].rsplit(".", 1)[1]] += 1
        if m["r"] == "err":
            stats["tree-error"] += 1
            if ierr is None:
                mism.append(dict(what="model says get_tree raises, implementation built a tree", schema=c.schema, model=m))
        elif ierr is not None:
            mism.append(dict(what=f"implementation get_tree raised {ierr}, model built a tree", schema=c.schema))
        else:
            stats["tree-ok"] += 1
            d = cmp_dump(m["dump"], idump, None, defaults)
            if d:
                mism.append(dict(what="node tree differs: " + d, schema=c.schema))
            mu = m["untrusted"]
            if ("ok" in c.unt) != (mu is not None) or ("ok" in c.unt and c.unt["ok"] != mu):
                mism.append(dict(what="get_untrusted_types differs", schema=c.schema, model=mu, impl=c.unt))
        for ti, T in enumerate(c.Ts):
            r = ioarch.impl_load(c.data, T)
            stats["load-" + r["outcome"]] += 1
            stats["events"] += len(r["events"])
            obs.append((c, T, r, m))
            if m["r"] == "err":
                if r["outcome"] not in ("error",):
                    mism.append(dict(what="model says get_tree raises, load did not raise an ordinary error", schema=c.schema, T=T, impl=r))
                continue
            pt = m["perT"][ti]
            if pt["verdict"] == "untrusted":
                if r["outcome"] != "untrusted" or r["names"] != pt["names"]:
                    mism.append(dict(what="verdict differs (model: untrusted)", schema=c.schema, T=T, model=pt, impl=r))
            elif pt["verdict"] == "ok":
                stats["refs_invariant_checked"] += 1
                if pt.get("refsAudited") is False:
                    # hypothesis of C01.load_only_vouched_refs: what a CachedNode points at was audited where it sits
                    mism.append(dict(what="memo invariant violated on the model tree: a CachedNode target has a non-empty audit of its own "
                                          "although the audit of the root is empty", schema=c.schema, T=T))
                if r["outcome"] == "untrusted":
                    mism.append(dict(what="verdict differs (model: audit passes)", schema=c.schema, T=T, model=pt, impl=r))
                elif not subseq(r["events"], pt["events"], recursion=r.get("e") == "RecursionError"):
                    mism.append(dict(what="construct performed a name resolution the model does not predict", schema=c.schema,
                                     T=T, model=pt["events"], impl=r["raw_events"]))
            else:
                if r["outcome"] != "error":
                    mism.append(dict(what="model: audit raises; implementation did not", schema=c.schema, T=T, impl=r))
    return dict(stats=stats, mismatches=mism, obs=obs, cases=cases, all_defaults=all_defaults, kinds_seen=kinds_seen, fx=fx)


def vouched(name, T, all_defaults, module=None):
    if name is None:
        return True               # resolver called with a non-string: it raises before importing
    if name in (T or []) or name in all_defaults or name in FIXED:
        return True
    # a class named by archive data, looked up in a module where the loader checks the documented base class; the module
    # is the resolver's own first argument when it is known (a looked-up name may itself contain dots)
    mod = module if isinstance(module, str) else name.rsplit(".", 1)[0]
    return mod in GUARDED_MODULES


FORBIDDEN_AUDIT = ("open", "os.", "subprocess.", "socket.", "ctypes.", "shutil.")


def c01_oracle(c, T, r, all_defaults):
    """C01 evaluated on one instrumented load"""
    fails = []
    raw = r.get("raw_events") or []
    for i, name in enumerate(r["events"]):
        module = raw[i][1] if i < len(raw) and len(raw) == len(r["events"]) else None
        if not vouched(name, T, all_defaults, module):
            fails.append(f"unvouched-resolution: load(trusted={T!r}) resolved {name!r}, which is neither in trusted nor default-trusted")
            break
    for mm in r.get("mismatches") or []:
        fails.append(f"resolved-other-object: the name that was audited is not the object that is used: {mm}")
        break
    if r["outcome"] in ("untrusted",) and r["events"]:
        fails.append(f"events-after-refusal: load raised UntrustedTypesFoundException but had already resolved {r['events'][:3]}")
    for kind, what in r["ledger"]:
        mod = what.split(".")[0]
        ok = any(t.split(".")[0] == mod for t in (T or []))
        if not ok:
            fails.append(f"canary-ran: {kind} {what} ran although nothing of module {mod} is in trusted={T!r}")
            break
    for ev, arg in r["audit"]:
        if ev == "open" and any(x in arg for x in (".pyc", ".py'", ".so'", "__pycache__", "/lib/python")):
            continue                  # the file reads of importing a module; which modules were imported is checked below
        if ev.startswith(FORBIDDEN_AUDIT):
            fails.append(f"forbidden-syscall: audit event {ev}({arg}) during load")
            break
        if ev == "import" and not (arg.startswith(("verif_canary", "numpy", "scipy", "sklearn", "skops", "collections", "functools",
                                                  "operator", "builtins", "joblib", "threadpoolctl", "encodings", "_", "importlib"))):
            names = [t for t in (T or []) if t.rsplit(".", 1)[0] == arg or t.startswith(arg + ".")]
            if not names:
                fails.append(f"unvouched-import: module {arg!r} was imported during load(trusted={T!r})")
                break
    return fails


def c02_oracle_inspect(data):
    """get_untrusted_types and visualize under instrumentation: nothing may happen"""
    from skops.io import get_untrusted_types, visualize

    fails = []
    L = ioarch.canary_ledger()
    for name, call in (("get_untrusted_types", lambda: get_untrusted_types(data=data)),
                       ("visualize", lambda: visualize(data, sink=lambda nodes, show, **kw: list(nodes)))):
        L.reset()
        with ioarch.Recorder() as rec:
            try:
                call()
            except RecursionError:
                pass
            except Exception:
                pass
        if rec.events:
            fails.append(f"inspect-resolves: {name} called a name resolver: {rec.events[:2]}")
        if L.LEDGER:
            fails.append(f"inspect-runs-code: {name} ran archive-named code: {list(L.LEDGER)[:2]}")
        bad = [m for m in rec.new_modules if not m.startswith(("encodings", "rich", "_"))]
        if bad:
            fails.append(f"inspect-imports: {name} imported {bad[:3]}")
        for ev, arg in rec.audit:
            if ev.startswith(FORBIDDEN_AUDIT) or ev in ("exec", "compile"):
                fails.append(f"inspect-syscall: {name} triggered audit event {ev}({arg})")
                break
    return fails


def shrink_schema(schema, pred, max_steps=150):
    """replace subtrees by small leaves while the predicate still holds"""
    leaf = {"__class__": "str", "__module__": "builtins", "__loader__": "JsonNode", "content": "1", "is_json": True}
    s = json.loads(json.dumps(schema))
    steps = 0

    def subnodes(x, path=()):
        out = []
        if isinstance(x, dict):
            for k, v in x.items():
                if isinstance(v, dict) and "__loader__" in v:
                    out.append(path + (k,))
                out += subnodes(v, path + (k,))
        elif isinstance(x, list):
            for i, v in enumerate(x):
                if isinstance(v, dict) and "__loader__" in v:
                    out.append(path + (i,))
                out += subnodes(v, path + (i,))
        return out

    changed = True
    while changed and steps < max_steps:
        changed = False
        for p in subnodes(s):
            cand = json.loads(json.dumps(s))
            cur = cand
            for k in p[:-1]:
                cur = cur[k]
            if cur[p[-1]] == leaf:
                continue
            cur[p[-1]] = dict(leaf)
            steps += 1
            try:
                if pred(cand):
                    s = cand
                    changed = True
                    break
            except Exception:
                pass
            if steps >= max_steps:
                break
    return s


def conclude(ctx, lean_ok, mism, ofails, stream, shrink=None):
    """ofails: list of (message, replay dict).  Violation policy of DESIGN section 1 (T3)."""
    reported = set()
    for msg, rep in ofails:
        tag = msg.split(":")[0]
        if tag in reported:
            continue
        reported.add(tag)
        if shrink:
            try:
                rep = shrink(tag, rep)
            except Exception:
                pass
        ctx.violation("oracle sentence failed on the implementation: " + msg, rep)
        if len(reported) >= 3:
            break
    if not ofails and (mism or not lean_ok):
        broken = [f"lean: {e}" for e in ctx.broken]
        rep = dict(kind="lean", no_longer_checks=broken)
        if mism:
            m = mism[0]
            broken.append(f"correspondence stream {stream}: {m['what']}")
            rep = dict({"kind": "archive"}, no_longer_checks=broken, **{k: v for k, v in m.items() if k != "what"})
        ctx.violation("proof obligation / correspondence broken and the oracle search found no failing input; " + "; ".join(broken)[:600],
                      rep, no_input=True)


def std_coverage(ctx, res, extra=None):
    st = res["stats"]
    cases = res["cases"]
    distinct = {json.dumps([c.origin, sorted(set(x for x in json.dumps(c.schema).split('"') if x.endswith("Node")))])
                for c in cases}
    ctx.coverage.update(
        evaluations=len(res["obs"]),
        distinct_nontrivial=len(distinct),
        rule="archives from the facts-driven adversarial grammar (every registered kind/protocol/slot, trusted / untrusted / "
             "misleading / canary / non-string names, fresh / shared / cyclic / falsy / string / 1-1.0-true ids, protocol values), "
             "real dumps and their mutations, each loaded under several trusted lists; distinct = distinct (origin, set of loaders)",
        samples=[cases[0].schema, cases[1].schema] if len(cases) > 1 else [cases[0].schema],
        traces_validated_against_impl=len(res["obs"]),
        outcome_histogram=dict(st),
        node_kinds_seen=dict(res["kinds_seen"]),
        correspondence_mismatches=len(res["mismatches"]),
    )
    if extra:
        ctx.coverage.update(extra)
    ctx.assumptions += [
        "module/class fields that are not str/int/bool/None and MethodNode func values that are lists are excluded from the generator",
        "numpy/scipy binary members are valid, garbage or missing; pickle-bearing members are covered by the npLoadNoPickle flow fact",
    ]
