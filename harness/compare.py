"""Strict structural comparator used by the persistence oracles (C03-C08, C12, C16, C17):
type identity, key types and order, dtype, shape, memory order, NaN-aware values."""
from __future__ import annotations

import functools
import math
import operator
import types


def _instance_attrs(a, b, path, seen):
    """instances of subclasses of the builtin containers can carry attributes of their own: part of the value"""
    if type(a) in (list, tuple, set, frozenset, dict):
        return None
    da, db = getattr(a, "__dict__", None), getattr(b, "__dict__", None)
    if isinstance(da, dict) or isinstance(db, dict):
        return same(dict(da or {}), dict(db or {}), path + ".__dict__", seen)
    return None


def same(a, b, path="obj", seen=None, strict_order=True):
    """None if `a` and `b` are the same value, else a one-line description of the first difference"""
    import numpy as np

    if seen is None:
        seen = set()
    key = (id(a), id(b))
    if key in seen:
        return None
    if type(a) is not type(b):
        return f"{path}: type {type(a).__module__}.{type(a).__qualname__} vs {type(b).__module__}.{type(b).__qualname__}"
    if a is b:
        return None
    if a is None or isinstance(a, (bool, str, bytes, int)) and not isinstance(a, np.generic):
        return None if a == b else f"{path}: {a!r} vs {b!r}"
    if isinstance(a, float) and not isinstance(a, np.generic):
        if math.isnan(a) and math.isnan(b):
            return None
        if a == b and math.copysign(1, a) == math.copysign(1, b):
            return None
        return f"{path}: {a!r} vs {b!r}"
    if isinstance(a, complex):
        return None if (a == b or (a != a and b != b)) else f"{path}: {a!r} vs {b!r}"
    seen.add(key)
    if isinstance(a, np.ndarray):
        if a.dtype != b.dtype:
            return f"{path}: dtype {a.dtype} vs {b.dtype}"
        if a.shape != b.shape:
            return f"{path}: shape {a.shape} vs {b.shape}"
        if a.dtype != object and a.ndim > 1 and a.size > 1 and (a.flags["F_CONTIGUOUS"] or a.flags["C_CONTIGUOUS"]):
            # "the same C or Fortran memory layout": a strided view has neither, and nothing is promised about it
            if a.flags["F_CONTIGUOUS"] != b.flags["F_CONTIGUOUS"] or a.flags["C_CONTIGUOUS"] != b.flags["C_CONTIGUOUS"]:
                return f"{path}: memory layout C={a.flags['C_CONTIGUOUS']},F={a.flags['F_CONTIGUOUS']} vs C={b.flags['C_CONTIGUOUS']},F={b.flags['F_CONTIGUOUS']}"
        if isinstance(a, np.ma.MaskedArray):
            # `nomask` and an explicit all-False mask array are different states of the object (a.mask.shape, mutability of the mask)
            if (np.ma.getmask(a) is np.ma.nomask) != (np.ma.getmask(b) is np.ma.nomask):
                return f"{path}.mask: {'nomask' if np.ma.getmask(a) is np.ma.nomask else 'mask array'} vs " \
                       f"{'nomask' if np.ma.getmask(b) is np.ma.nomask else 'mask array'}"
            return same(np.asarray(a.data), np.asarray(b.data), path + ".data", seen) or \
                same(np.ma.getmaskarray(a), np.ma.getmaskarray(b), path + ".mask", seen)
        if a.dtype == object:
            for i, (x, y) in enumerate(zip(a.ravel(order="C").tolist(), b.ravel(order="C").tolist())):
                d = same(x, y, f"{path}.flat[{i}]", seen)
                if d:
                    return d
            return None
        if a.dtype.names:
            # field by field: padding bytes of structured dtypes are not part of the value
            for nm in a.dtype.names:
                d = same(np.ascontiguousarray(a[nm]), np.ascontiguousarray(b[nm]), f"{path}[{nm!r}]", seen)
                if d:
                    return d
            return None
        if a.dtype.kind == "V":
            return None if a.tobytes() == b.tobytes() else f"{path}: void array bytes differ"
        if a.tobytes() == b.tobytes():
            return None
        try:
            if np.array_equal(a, b, equal_nan=True) and np.array_equal(np.signbit(a), np.signbit(b)):
                return None
        except TypeError:
            if np.array_equal(a, b):
                return None
        return f"{path}: array values differ"
    if isinstance(a, np.generic):
        if a.dtype != b.dtype:
            return f"{path}: dtype {a.dtype} vs {b.dtype}"
        if a.tobytes() == b.tobytes():
            return None
        if a.dtype.kind in "fc":
            # extended-precision scalars carry padding bytes that are not part of the value
            if (a == b or (a != a and b != b)) and np.signbit(a.real) == np.signbit(b.real):
                return None
        return f"{path}: {a!r} vs {b!r}"
    if isinstance(a, np.dtype):
        return None if a == b and a.str == b.str else f"{path}: dtype {a!r} vs {b!r}"
    if isinstance(a, (list, tuple)):
        if len(a) != len(b):
            return f"{path}: length {len(a)} vs {len(b)}"
        for i, (x, y) in enumerate(zip(a, b)):
            d = same(x, y, f"{path}[{i}]", seen)
            if d:
                return d
        return _instance_attrs(a, b, path, seen)
    if isinstance(a, (set, frozenset)):
        if len(a) != len(b):
            return f"{path}: set size {len(a)} vs {len(b)}"
        try:
            if a == b and sorted(map(repr, map(type, a))) == sorted(map(repr, map(type, b))):
                return _instance_attrs(a, b, path, seen)
        except Exception:
            pass
        return f"{path}: set contents differ"
    if isinstance(a, dict):
        ka, kb = list(a.keys()), list(b.keys())
        if len(ka) != len(kb):
            return f"{path}: {len(ka)} vs {len(kb)} keys"
        for i, (x, y) in enumerate(zip(ka, kb)):
            d = same(x, y, f"{path}.key#{i}", seen)
            if d:
                return d + " (key order/type)"
        if hasattr(a, "default_factory"):
            d = same(a.default_factory, b.default_factory, path + ".default_factory", seen)
            if d:
                return d
        # by position (the key lists were just compared pairwise): a NaN key cannot be looked up again
        for k, x, y in zip(ka, list(a.values()), list(b.values())):
            d = same(x, y, f"{path}[{k!r}]", seen)
            if d:
                return d
        return _instance_attrs(a, b, path, seen)
    if isinstance(a, (bytearray,)):
        return None if a == b else f"{path}: bytearray differs"
    if isinstance(a, slice):
        return same((a.start, a.stop, a.step), (b.start, b.stop, b.step), path, seen)
    if isinstance(a, range):
        return None if a == b else f"{path}: {a} vs {b}"
    if isinstance(a, (types.FunctionType, types.BuiltinFunctionType, type, np.ufunc)):
        return None if a is b else f"{path}: different function/type objects {a!r} vs {b!r}"
    if isinstance(a, types.MethodType):
        return same(a.__func__, b.__func__, path + ".__func__", seen) or same(a.__self__, b.__self__, path + ".__self__", seen)
    if isinstance(a, functools.partial):
        return same((a.func, a.args, a.keywords, a.__dict__), (b.func, b.args, b.keywords, b.__dict__), path + ".partial", seen)
    if isinstance(a, (operator.attrgetter, operator.itemgetter, operator.methodcaller)):
        return same(a.__reduce__()[1:], b.__reduce__()[1:], path + ".reduce", seen)
    if isinstance(a, np.random.RandomState):
        return same(a.get_state(legacy=False), b.get_state(legacy=False), path + ".state", seen)
    if isinstance(a, np.random.Generator):
        return same(a.bit_generator.state, b.bit_generator.state, path + ".bit_generator.state", seen)
    try:
        import scipy.sparse as sp

        if sp.issparse(a):
            if a.format != b.format or a.shape != b.shape or a.dtype != b.dtype:
                return f"{path}: sparse {a.format}/{a.shape}/{a.dtype} vs {b.format}/{b.shape}/{b.dtype}"
            # the storage arrays themselves: products accumulate in storage order, so a re-sorted or de-duplicated copy is
            # not "the same" for bitwise-identical outputs
            for attr in ("data", "indices", "indptr", "row", "col", "offsets"):
                if hasattr(a, attr) and hasattr(b, attr):
                    d = same(np.asarray(getattr(a, attr)), np.asarray(getattr(b, attr)), f"{path}.{attr}", seen)
                    if d:
                        return d
            ca, cb = a.tocoo(), b.tocoo()
            return same(ca.toarray(), cb.toarray(), path + ".toarray()", seen)
    except ImportError:
        pass
    # generic objects: state protocol
    if hasattr(a, "__getstate__") and type(a).__getstate__ is not object.__getstate__:
        try:
            return same(a.__getstate__(), b.__getstate__(), path + ".__getstate__()", seen)
        except Exception:
            pass
    slots = [s for k in type(a).__mro__ for s in getattr(k, "__slots__", ()) if isinstance(s, str) and s not in ("__dict__", "__weakref__")]
    da, db = getattr(a, "__dict__", None), getattr(b, "__dict__", None)
    if da is not None:
        d = same(dict(da), dict(db), path + ".__dict__", seen)
        if d:
            return d
    for s in slots:
        if hasattr(a, s) != hasattr(b, s):
            return f"{path}.{s}: present vs absent"
        if hasattr(a, s):
            d = same(getattr(a, s), getattr(b, s), f"{path}.{s}", seen)
            if d:
                return d
    if da is None and not slots:
        try:
            ra, rb = a.__reduce__(), b.__reduce__()
            return same(ra[1:], rb[1:], path + ".__reduce__()", seen)
        except Exception:
            try:
                return None if a == b else f"{path}: {a!r} vs {b!r}"
            except Exception:
                return None
    return None
