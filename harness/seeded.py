"""Evaluate a seeded change: python -m harness.seeded <dir with patch.diff+demo.py> <prop id> [pytest targets...]
Applies the patch to /repo, runs demo + quick check + the given pinned tests, then reverts (always)."""
import json, subprocess, sys, os

def sh(cmd, **kw):
    p = subprocess.run(cmd, shell=True, capture_output=True, text=True, **kw)
    return p.returncode, (p.stdout + p.stderr)

def main():
    d, pid = sys.argv[1], sys.argv[2]
    tests = " ".join(sys.argv[3:]) or "skops/card"
    res = {}
    rc, out = sh("git -C /repo status --porcelain --untracked-files=no")
    assert out.strip() == "", "repo not clean: " + out
    res["demo_clean_rc"], _ = sh(f"cd /repo && /venv/bin/python -W ignore {d}/demo.py")
    rc, out = sh(f"git -C /repo apply {d}/patch.diff")
    if rc != 0:
        # written against an earlier HEAD (fix commits since then): fall back to a three-way merge
        rc, out = sh(f"git -C /repo apply --3way {d}/patch.diff")
        res["applied"] = "3way"
    assert rc == 0, out
    try:
        res["demo_patched_rc"], o = sh(f"cd /repo && /venv/bin/python -W ignore {d}/demo.py")
        res["demo_patched_out"] = o[-300:]
        rc, o = sh(f"cd /verif && ./check {pid} quick")
        res["check_rc"] = rc
        res["check_out"] = [l for l in o.splitlines() if l.startswith(("VIOLATION", "  (", "KNOWN", "INFRA"))][:6]
        rc, o = sh("cd /verif && /venv/bin/python -m harness.baseline")
        res["tests"] = o.strip()[:300]
    finally:
        sh("git -C /repo reset -q && git -C /repo checkout -- .")
    print(json.dumps(res, indent=1))

main()
