"""io side of the harness: archive construction, generators, implementation runners with instrumentation."""
from __future__ import annotations

import io
import json
import sys
import zipfile

from .common import repo_on_path, VERIF

repo_on_path()

CANARY_DIR = VERIF / "harness" / "canary"


# ------------------------------------------------------------------------------------------
# JSON <-> tagged encoding understood by the driver


def enc(v):
    if v is None:
        return ["n"]
    if isinstance(v, bool):
        return ["b", v]
    if isinstance(v, int):
        return ["i", str(v)]
    if isinstance(v, float):
        return ["f", repr(v), str(int(v)) if v == v and abs(v) != float("inf") and v.is_integer() else None]
    if isinstance(v, str):
        return ["s", v]
    if isinstance(v, (list, tuple)):
        return ["a", [enc(x) for x in v]]
    if isinstance(v, dict):
        return ["o", [[k, enc(x)] for k, x in v.items()]]
    raise TypeError(type(v))


def make_zip(schema, members=None):
    """bytes of an archive with the given schema object and binary members"""
    buf = io.BytesIO()
    with zipfile.ZipFile(buf, "w") as z:
        for name, data in (members or {}).items():
            z.writestr(name, data)
        z.writestr("schema.json", json.dumps(schema))
    return buf.getvalue()


def read_schema(data):
    with zipfile.ZipFile(io.BytesIO(data)) as z:
        names = [n for n in z.namelist() if n != "schema.json"]
        return json.loads(z.read("schema.json")), names


# ------------------------------------------------------------------------------------------
# instrumentation


class Recorder:
    """patches the name-resolution helpers in every skops.io module and records (module, name) calls"""

    MODS = ["skops.io._utils", "skops.io._general", "skops.io._numpy", "skops.io._scipy", "skops.io._sklearn",
            "skops.io._quantile_forest", "skops.io.old._general_v0", "skops.io.old._numpy_v0", "skops.io.old._numpy_v1",
            "skops.io._audit", "skops.io._visualize", "skops.io._persist"]

    BLOCK = None        # names whose objects are never handed out (general-purpose callables), loaded lazily

    @classmethod
    def blocked(cls):
        if cls.BLOCK is None:
            p = VERIF / "generated" / "trust.json"
            names = set(json.loads(p.read_text())["dangerous"]) if p.exists() else set()
            names |= {"os.system", "subprocess.Popen", "builtins.eval", "builtins.exec", "importlib.import_module", "os._exit",
                      "sys.exit", "os.abort", "os.kill", "os.fork", "shutil.rmtree", "os.remove", "os.rmdir", "os.unlink"}
            cls.BLOCK = names
        return cls.BLOCK

    def __init__(self):
        self.events = []
        self.audit = []
        self.saved = []
        self.active = False
        self.blocked_hits = []
        self.mismatches = []

    def __enter__(self):
        import importlib

        import skops.io  # noqa
        import skops.io._utils as U

        real_gettype, real_import = U.gettype, U._import_obj
        rec = self

        block = self.blocked()

        class BlockedResolution(RuntimeError):
            pass

        def guard(module, name):
            # safety net of the harness: the event is recorded, but a general-purpose callable is never handed out
            if isinstance(module, str) and isinstance(name, str) and f"{module}.{name}" in block:
                rec.blocked_hits.append(f"{module}.{name}")
                raise BlockedResolution(f"verif harness refuses to resolve {module}.{name}")

        def denotes(module, name, obj):
            """reference resolution: `obj` must be what `<module>.<name>` denotes (same object), nothing nearby"""
            if not (isinstance(module, str) and isinstance(name, str)):
                return
            if (module, name) == ("builtins", "NoneType") and obj is type(None):
                return
            try:
                ref = getattr(importlib.import_module(module), name)
            except Exception:
                rec.mismatches.append(f"{module}.{name} does not resolve, yet the resolver returned {obj!r}"[:200])
                return
            if ref is not obj:
                rec.mismatches.append(f"{module}.{name} denotes {ref!r}, the resolver returned {obj!r}"[:200])

        def gettype(module_name, cls_or_func):
            rec.events.append(("gettype", module_name, cls_or_func))
            guard(module_name, cls_or_func)
            obj = real_gettype(module_name, cls_or_func)
            denotes(module_name, cls_or_func, obj)
            return obj

        def _import_obj(module, cls_or_func, package=None):
            if not (rec.events and rec.events[-1] == ("gettype", module, cls_or_func)):
                rec.events.append(("_import_obj", module, cls_or_func))
            guard(module, cls_or_func)
            obj = real_import(module, cls_or_func, package=package)
            denotes(module, cls_or_func, obj)
            return obj

        for mn in self.MODS:
            m = sys.modules.get(mn) or importlib.import_module(mn)
            for attr, fn in (("gettype", gettype), ("_import_obj", _import_obj)):
                if hasattr(m, attr):
                    self.saved.append((m, attr, getattr(m, attr)))
                    setattr(m, attr, fn)
        self.modules_before = set(sys.modules)
        self.active = True
        _HOOK.recorders.append(self)
        return self

    def __exit__(self, *a):
        self.active = False
        _HOOK.recorders.remove(self)
        for m, attr, old in self.saved:
            setattr(m, attr, old)
        self.new_modules = sorted(set(sys.modules) - self.modules_before)

    def names(self):
        out = []
        def scalarish(x):
            # what the model's `pyStr` renders: scalars and the two empty containers
            return isinstance(x, (str, int, bool)) or x is None or x == [] or x == {}

        for _, m, c in self.events:
            if isinstance(m, str) and scalarish(c):
                out.append(m + "." + str(c))
            elif scalarish(m) and scalarish(c):
                out.append(str(m) + "." + str(c))
            else:
                out.append(None)
        return out


class _Hook:
    """one process-wide audit hook (hooks cannot be removed); forwards to active recorders"""

    WATCH = ("open", "exec", "compile", "os.system", "os.exec", "os.spawn", "os.posix_spawn", "subprocess.Popen",
             "socket.", "ctypes.", "os.remove", "os.rename", "os.mkdir", "os.rmdir", "shutil.", "os.chdir", "os.putenv")

    def __init__(self):
        self.recorders = []
        self.installed = False

    def install(self):
        if not self.installed:
            sys.addaudithook(self.hook)
            self.installed = True

    def hook(self, event, args):
        if not self.recorders:
            return
        if event == "import":
            for r in self.recorders:
                if r.active:
                    r.audit.append(("import", args[0]))
        elif event.startswith(self.WATCH):
            for r in self.recorders:
                if r.active:
                    a0 = args[0] if args else None
                    if event == "compile" and isinstance(a0, (bytes, str)) and len(a0) > 200:
                        a0 = a0[:80]
                    r.audit.append((event, repr(a0)[:120]))


_HOOK = _Hook()


def canary_ledger():
    import verif_canary_ledger as L

    return L


def install_canaries():
    p = str(CANARY_DIR)
    if p not in sys.path:
        sys.path.insert(0, p)
    _HOOK.install()


# ------------------------------------------------------------------------------------------
# implementation runners


def exc_class(ex):
    from skops.io.exceptions import UntrustedTypesFoundException

    if isinstance(ex, UntrustedTypesFoundException):
        return "Untrusted"
    return type(ex).__name__


def impl_tree_dump(data, T):
    """DFS dump of the real node tree built by get_tree (same format as the driver's)"""
    import skops.io  # noqa
    from skops.io._audit import Node, get_tree
    from skops.io._utils import LoadContext

    with zipfile.ZipFile(io.BytesIO(data)) as z:
        schema = json.loads(z.read("schema.json"))
        ctx = LoadContext(src=z, protocol=schema["protocol"])
        tree = get_tree(schema, ctx, trusted=T)
    out, seen = [], {}

    def cls_path(n):
        return f"{type(n).__module__}.{type(n).__qualname__}"

    def raw(v):
        if isinstance(v, bool) or v is None or isinstance(v, str):
            return v
        if isinstance(v, int):
            return {"i": str(v)}
        if isinstance(v, float):
            return {"f": repr(v)}
        if isinstance(v, list):
            return [raw(x) for x in v]
        if isinstance(v, dict):
            return [[k, raw(x)] for k, x in v.items()]
        return "<" + type(v).__name__ + ">"

    def visit(n, depth, slot, label, grp):
        if id(n) in seen:
            out.append(dict(d=depth, slot=slot, label=label, grp=grp, t="ref", idx=seen[id(n)]))
            return
        seen[id(n)] = len(seen)
        out.append(dict(d=depth, slot=slot, label=label, grp=grp, t="node", cls=cls_path(n),
                        mod=n.module_name if isinstance(n.module_name, str) else None,
                        name=n.class_name if isinstance(n.class_name, str) else None,
                        trusted=sorted(set(n.trusted)) if isinstance(n.trusted, list) else repr(n.trusted)))
        for key, ch in n.children.items():
            if isinstance(ch, Node):
                visit(ch, depth + 1, key, key, "single")
            elif isinstance(ch, list) and all(isinstance(x, Node) for x in ch):
                for x in ch:
                    visit(x, depth + 1, key, key, "list")
            elif isinstance(ch, dict) and all(isinstance(x, Node) for x in ch.values()) and \
                    type(n).__name__ in ("DictNode",):
                for k2, x in ch.items():
                    visit(x, depth + 1, key, k2, "dict")
            elif ch is None:
                out.append(dict(d=depth + 1, slot=key, t="none"))
            elif isinstance(ch, io.BytesIO):
                out.append(dict(d=depth + 1, slot=key, t="blob"))
            else:
                out.append(dict(d=depth + 1, slot=key, t="raw", v=raw(ch)))
        if hasattr(n, "cached"):
            if n.cached is None:
                out.append(dict(d=depth + 1, slot="@memo", t="none"))
            else:
                visit(n.cached, depth + 1, "@memo", "@memo", "single")

    visit(tree, 0, "root", "root", "single")
    return out


def impl_untrusted(data):
    from skops.io import get_untrusted_types

    try:
        return dict(ok=get_untrusted_types(data=data))
    except Exception as ex:
        return dict(err=exc_class(ex))


def impl_load(data, T):
    """loads under instrumentation -> outcome + resolver events + side observations"""
    from skops.io import loads

    L = canary_ledger()
    L.reset()
    with Recorder() as rec:
        try:
            obj = loads(data, trusted=T)
            out = dict(outcome="ok", type=f"{type(obj).__module__}.{type(obj).__qualname__}")
        except RecursionError:
            out = dict(outcome="error", e="RecursionError")
        except Exception as ex:
            c = exc_class(ex)
            if c == "Untrusted":
                import re

                names = re.findall(r"'([^']*)'", str(ex))
                out = dict(outcome="untrusted", names=names)
            else:
                out = dict(outcome="error", e=c)
    out["events"] = rec.names()
    out["mismatches"] = list(rec.mismatches)
    out["raw_events"] = [list(map(lambda x: x if isinstance(x, (str, type(None))) else repr(x), e)) for e in rec.events]
    out["audit"] = rec.audit
    out["new_modules"] = rec.new_modules
    out["ledger"] = list(L.LEDGER)
    out["blocked"] = list(rec.blocked_hits)
    return out
