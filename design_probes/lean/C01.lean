/-! Prototype of the C01 theorem: audit passed ⇒ every construct-time event is vouched. -/
abbrev Name := String

inductive SelfCheck | standard | always
deriving DecidableEq, Repr

inductive Use
  | resolveSelf                   -- gettype(self.module_name, self.class_name)
  | resolveConst (n : Name)       -- fixed constructor
  | resolveDyn                    -- name taken from archive data
  | callChild (key : String)
deriving DecidableEq, Repr

structure KindSpec where
  check : SelfCheck
  defaults : List Name
  walksKids : Bool
  constructsKids : Bool           -- does `_construct` call child.construct()?
  uses : List Use
deriving Repr

mutual
inductive Node where
  | mk (kind : Nat) (name : Name) (trusted : List Name) (kids : Kids)
  | backref
inductive Kids where
  | nil
  | node (key : String) (n : Node) (rest : Kids)
  | raw (key : String) (rest : Kids)
end

structure Event where
  kind : Nat
  name : Name          -- resolved qualified name
  auditedAs : Option Name   -- name the audit checked for it (none = never audited)
  trusted : List Name  -- effective list of the node that performed it
deriving Repr

variable (spec : Nat → KindSpec) (fixedOk : List Name)

def selfSafe (kind : Nat) (name : Name) (trusted : List Name) : Bool :=
  match (spec kind).check with
  | .standard => trusted.contains name
  | .always => true

mutual
def Node.unsafeSet : Node → List Name
  | .mk kind name trusted kids =>
      (if selfSafe spec kind name trusted then [] else [name]) ++
      (if (spec kind).walksKids then kids.unsafeSet else [])
  | .backref => []
def Kids.unsafeSet : Kids → List Name
  | .nil => []
  | .node _ n rest => n.unsafeSet ++ rest.unsafeSet
  | .raw _ rest => rest.unsafeSet
end

def useEvent (kind : Nat) (name : Name) (trusted : List Name) (dyn : Name) : Use → List Event
  | .resolveSelf => [⟨kind, name, some name, trusted⟩]
  | .resolveConst n => [⟨kind, n, some n, trusted⟩]
  | .resolveDyn => [⟨kind, dyn, none, trusted⟩]
  | .callChild _ => []

mutual
def Node.events (dyn : Name) : Node → List Event
  | .mk kind name trusted kids =>
      ((spec kind).uses.flatMap (useEvent kind name trusted dyn)) ++
      (if (spec kind).constructsKids then kids.events dyn else [])
  | .backref => []
def Kids.events (dyn : Name) : Kids → List Event
  | .nil => []
  | .node _ n rest => n.events dyn ++ rest.events dyn
  | .raw _ rest => rest.events dyn
end

def Use.ok (c : SelfCheck) : Use → Bool
  | .resolveSelf => c == .standard
  | .resolveConst n => fixedOk.contains n
  | .resolveDyn => false
  | .callChild _ => true

def KindSpec.ok (k : KindSpec) : Bool :=
  k.uses.all (Use.ok fixedOk k.check) && (!k.constructsKids || k.walksKids)

def Event.vouched (e : Event) : Prop :=
  e.auditedAs = some e.name ∧ (e.name ∈ e.trusted ∨ e.name ∈ fixedOk)

mutual
theorem Node.events_vouched (hs : ∀ k, (spec k).ok fixedOk = true) (dyn : Name) :
    ∀ n : Node, n.unsafeSet spec = [] → ∀ e ∈ n.events spec dyn, e.vouched fixedOk
  | .mk kind name trusted kids => by
      intro hu e he
      have hk := hs kind
      simp only [KindSpec.ok, Bool.and_eq_true, List.all_eq_true, Bool.or_eq_true,
        Bool.not_eq_true'] at hk
      simp only [Node.unsafeSet, List.append_eq_nil_iff] at hu
      simp only [Node.events, List.mem_append, List.mem_flatMap] at he
      rcases he with ⟨u, hu_mem, hev⟩ | hkids
      · have huok := hk.1 u hu_mem
        cases u with
        | resolveSelf =>
          simp [useEvent] at hev; subst hev
          simp only [Use.ok, beq_iff_eq] at huok
          have hsafe : selfSafe spec kind name trusted = true := by
            by_cases h : selfSafe spec kind name trusted = true
            · exact h
            · simp [h] at hu
          simp [selfSafe, huok] at hsafe
          exact ⟨rfl, Or.inl hsafe⟩
        | resolveConst n =>
          simp [useEvent] at hev; subst hev
          simp only [Use.ok, List.contains_iff_mem] at huok
          exact ⟨rfl, Or.inr (by simpa using huok)⟩
        | resolveDyn => simp [Use.ok] at huok
        | callChild k => simp [useEvent] at hev
      · by_cases hc : (spec kind).constructsKids = true
        · have hw : (spec kind).walksKids = true := by
            rcases hk.2 with h | h
            · simp [h] at hc
            · exact h
          simp only [hc, if_true] at hkids
          simp only [hw, if_true] at hu
          exact Kids.events_vouched hs dyn kids hu.2 e hkids
        · simp [hc] at hkids
  | .backref => by intro _ e he; simp [Node.events] at he
theorem Kids.events_vouched (hs : ∀ k, (spec k).ok fixedOk = true) (dyn : Name) :
    ∀ ks : Kids, ks.unsafeSet spec = [] → ∀ e ∈ ks.events spec dyn, e.vouched fixedOk
  | .nil => by intro _ e he; simp [Kids.events] at he
  | .node _ n rest => by
      intro hu e he
      simp only [Kids.unsafeSet, List.append_eq_nil_iff] at hu
      simp only [Kids.events, List.mem_append] at he
      rcases he with h | h
      · exact Node.events_vouched hs dyn n hu.1 e h
      · exact Kids.events_vouched hs dyn rest hu.2 e h
  | .raw _ rest => by
      intro hu e he
      simp only [Kids.unsafeSet] at hu
      simp only [Kids.events] at he
      exact Kids.events_vouched hs dyn rest hu e he
end
#print axioms Node.events_vouched
