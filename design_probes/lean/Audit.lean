abbrev Name := String

inductive SelfCheck | standard | always | fixed (names : List Name)
deriving Repr, DecidableEq

structure KindSpec where
  defaults : List Name
  check : SelfCheck
  walksKids : Bool
deriving Repr

mutual
inductive Node where
  | mk (kind : Nat) (name : Name) (kids : Kids)
  | backref
inductive Kids where
  | nil
  | node (key : String) (n : Node) (rest : Kids)
  | raw (key : String) (rest : Kids)
end

variable (spec : Nat → KindSpec)

def selfSafe (T : List Name) (kind : Nat) (name : Name) : Bool :=
  match (spec kind).check with
  | .standard => (T ++ (spec kind).defaults).contains name
  | .always => true
  | .fixed ns => ns.contains name

mutual
def Node.unsafe (T : List Name) : Node → List Name
  | .mk kind name kids =>
      (if selfSafe spec T kind name then [] else [name]) ++
      (if (spec kind).walksKids then kids.unsafe T else [])
  | .backref => []
def Kids.unsafe (T : List Name) : Kids → List Name
  | .nil => []
  | .node _ n rest => n.unsafe T ++ rest.unsafe T
  | .raw _ rest => rest.unsafe T
end

/-- all kinds use caller-plus-defaults -/
def AllStandard : Prop := ∀ k, (spec k).check = .standard ∨ (spec k).check = .always

mutual
theorem Node.unsafe_filter (h : AllStandard spec) (T : List Name) : ∀ n : Node,
    n.unsafe spec T = (n.unsafe spec []).filter (fun x => !T.contains x)
  | .mk kind name kids => by
      have hk := Kids.unsafe_filter h T kids
      simp only [Node.unsafe, List.filter_append]
      rcases h kind with hc | hc
      · by_cases hw : (spec kind).walksKids <;>
          by_cases hd : (spec kind).defaults.contains name <;>
          by_cases ht : T.contains name <;>
          simp_all [selfSafe, List.filter]
      · by_cases hw : (spec kind).walksKids <;> simp_all [selfSafe]
  | .backref => by simp [Node.unsafe]
theorem Kids.unsafe_filter (h : AllStandard spec) (T : List Name) : ∀ ks : Kids,
    ks.unsafe spec T = (ks.unsafe spec []).filter (fun x => !T.contains x)
  | .nil => by simp [Kids.unsafe]
  | .node _ n rest => by
      simp [Kids.unsafe, List.filter_append, Node.unsafe_filter h T n, Kids.unsafe_filter h T rest]
  | .raw _ rest => by simpa [Kids.unsafe] using Kids.unsafe_filter h T rest
end
#print axioms Node.unsafe_filter
