/-! Prototype: getState / construct round trip on a reduced value grammar (C05 shape). -/
inductive KeyTy | str | int | bool
deriving DecidableEq, Repr

inductive Key | s (v : String) | i (v : Int) | b (v : Bool)
deriving DecidableEq, Repr

mutual
inductive V where
  | none | int (i : Int) | str (s : String)
  | list (xs : VL) | tuple (xs : VL)
  | dict (kvs : VD)
inductive VL where | nil | cons (x : V) (xs : VL)
inductive VD where | nil | cons (k : Key) (v : V) (rest : VD)
end

-- schema produced by get_state (ids omitted in this prototype)
mutual
inductive S where
  | jsonNone | jsonInt (i : Int) | jsonStr (s : String)
  | listNode (items : SL) | tupleNode (items : SL)
  | dictNode (keyTypes : List KeyTy) (content : SD)
inductive SL where | nil | cons (x : S) (xs : SL)
inductive SD where | nil | cons (keyText : String) (v : S) (rest : SD)
end

-- abstract decimal text with its contract made explicit
structure IntText where
  render : Int → String
  parse : String → Option Int
  parse_render : ∀ i, parse (render i) = some i

variable (T : IntText)

def keyText : Key → String
  | .s v => v | .i v => T.render v | .b true => "true" | .b false => "false"
def keyTy : Key → KeyTy | .s _ => .str | .i _ => .int | .b _ => .bool
/-- `k_type(key)` as the implementation does it: `bool(text)` is truthiness of the string -/
def coerce : KeyTy → String → Option Key
  | .str, t => some (.s t)
  | .int, t => (T.parse t).map .i
  | .bool, t => some (.b (t ≠ ""))

def VD.keyTys : VD → List KeyTy
  | .nil => [] | .cons k _ rest => keyTy k :: rest.keyTys

mutual
def V.getState : V → S
  | .none => .jsonNone | .int i => .jsonInt i | .str s => .jsonStr s
  | .list xs => .listNode xs.getState
  | .tuple xs => .tupleNode xs.getState
  | .dict kvs => .dictNode kvs.keyTys kvs.getState
def VL.getState : VL → SL
  | .nil => .nil | .cons x xs => .cons x.getState xs.getState
def VD.getState : VD → SD
  | .nil => .nil | .cons k v rest => .cons (keyText T k) v.getState rest.getState
end

mutual
def S.construct : S → Option V
  | .jsonNone => some .none | .jsonInt i => some (.int i) | .jsonStr s => some (.str s)
  | .listNode items => items.construct.map .list
  | .tupleNode items => items.construct.map .tuple
  | .dictNode tys content => (content.construct tys).map .dict
def SL.construct : SL → Option VL
  | .nil => some .nil
  | .cons x xs => do let a ← x.construct; let b ← xs.construct; pure (.cons a b)
/-- zip(key_types, content.items()) — truncating zip, as in the implementation -/
def SD.construct : SD → List KeyTy → Option VD
  | .nil, _ => some .nil
  | .cons _ _ _, [] => some .nil
  | .cons t v rest, ty :: tys => do
      let k ← coerce T ty t; let a ← v.construct; let b ← rest.construct tys; pure (.cons k a b)
end

-- supported: no `False` key anywhere (duplicate-text condition omitted in this reduced prototype:
-- the schema keeps duplicates as an association list, JSON collapsing is modelled elsewhere)
mutual
def V.Supp : V → Prop
  | .list xs | .tuple xs => xs.Supp
  | .dict kvs => kvs.Supp
  | _ => True
def VL.Supp : VL → Prop
  | .nil => True | .cons x xs => x.Supp ∧ xs.Supp
def VD.Supp : VD → Prop
  | .nil => True | .cons k v rest => k ≠ .b false ∧ v.Supp ∧ rest.Supp
end

theorem coerce_keyText (k : Key) (h : k ≠ .b false) : coerce T (keyTy k) (keyText T k) = some k := by
  cases k with
  | s v => rfl
  | i v => simp [coerce, keyTy, keyText, T.parse_render]
  | b v => cases v <;> simp_all [coerce, keyTy, keyText]

mutual
theorem V.roundtrip : ∀ v : V, v.Supp → (v.getState T).construct T = some v
  | .none, _ | .int _, _ | .str _, _ => by simp [V.getState, S.construct]
  | .list xs, h => by simp [V.getState, S.construct, VL.roundtrip xs (by simpa [V.Supp] using h)]
  | .tuple xs, h => by simp [V.getState, S.construct, VL.roundtrip xs (by simpa [V.Supp] using h)]
  | .dict kvs, h => by simp [V.getState, S.construct, VD.roundtrip kvs (by simpa [V.Supp] using h)]
theorem VL.roundtrip : ∀ xs : VL, xs.Supp → (xs.getState T).construct T = some xs
  | .nil, _ => by simp [VL.getState, SL.construct]
  | .cons x xs, h => by
      simp only [VL.Supp] at h
      simp [VL.getState, SL.construct, V.roundtrip x h.1, VL.roundtrip xs h.2]
theorem VD.roundtrip : ∀ kvs : VD, kvs.Supp → (kvs.getState T).construct T kvs.keyTys = some kvs
  | .nil, _ => by simp [VD.getState, SD.construct]
  | .cons k v rest, h => by
      simp only [VD.Supp] at h
      simp [VD.getState, VD.keyTys, SD.construct, coerce_keyText T k h.1, V.roundtrip v h.2.1,
        VD.roundtrip rest h.2.2]
end

-- negation witness for the excluded clause: a `False` key comes back as `True`
example : ((V.dict (.cons (.b false) (.int 1) .nil)).getState T).construct T
        = some (.dict (.cons (.b true) (.int 1) .nil)) := by
  simp [V.getState, VD.getState, VD.keyTys, S.construct, SD.construct, coerce, keyText, keyTy]
#print axioms V.roundtrip
