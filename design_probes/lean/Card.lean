structure Data where
  title : String
  content : String
  visible : Bool := true
  folded : Bool := false
deriving Repr, DecidableEq

inductive Forest where
  | nil
  | cons (key : String) (d : Data) (ch : Forest) (rest : Forest)
deriving Repr, DecidableEq

namespace Forest

def get? : Forest → String → Option (Data × Forest)
  | nil, _ => none
  | cons k d ch rest, x => if k = x then some (d, ch) else get? rest x

/-- `_select(names, create=False)` -/
def descend : Forest → List String → Option Forest
  | f, [] => some f
  | f, n :: ns => match f.get? n with
    | some (_, ch) => descend ch ns
    | none => none

def select (f : Forest) (path : List String) (leaf : String) : Option (Data × Forest) :=
  match f.descend path with
  | some p => p.get? leaf
  | none => none

/-- set entry `k` in this sibling list: replace data keeping children & position, or append at end -/
def setLeaf : Forest → String → Data → Forest
  | nil, k, d => cons k d nil nil
  | cons k' d' ch rest, k, d => if k' = k then cons k' d ch rest else cons k' d' ch (setLeaf rest k d)

def addAt : Forest → List String → String → Data → Forest
  | f, [], leaf, d => setLeaf f leaf d
  | nil, n :: ns, leaf, d => cons n {title := n, content := ""} (addAt nil ns leaf d) nil
  | cons k d' ch rest, n :: ns, leaf, d =>
      if k = n then cons k d' (addAt ch ns leaf d) rest
      else cons k d' ch (addAt rest (n :: ns) leaf d)

theorem get_setLeaf_same (f : Forest) (k : String) (d : Data) :
    ∃ ch, (f.setLeaf k d).get? k = some (d, ch) := by
  induction f with
  | nil => exact ⟨nil, by simp [setLeaf, get?]⟩
  | cons k' d' ch rest ihc ihr =>
    by_cases h : k' = k
    · subst h; exact ⟨ch, by simp [setLeaf, get?]⟩
    · obtain ⟨c, h1⟩ := ihr
      exact ⟨c, by simp [setLeaf, get?, h, h1]⟩

theorem get_setLeaf_other (f : Forest) (k x : String) (d : Data) (h : x ≠ k) :
    (f.setLeaf k d).get? x = f.get? x := by
  induction f with
  | nil =>
    have : ¬ (k = x) := fun e => h e.symm
    simp [setLeaf, get?, this]
  | cons k' d' ch rest ihc ihr =>
    by_cases hk : k' = k
    · subst hk
      have : ¬ (k' = x) := fun e => h e.symm
      simp [setLeaf, get?, this]
    · simp [setLeaf, hk, get?, ihr]

theorem select_addAt_same (f : Forest) (path : List String) (leaf : String) (d : Data) :
    ∃ ch, (f.addAt path leaf d).select path leaf = some (d, ch) := by
  induction path generalizing f with
  | nil =>
    obtain ⟨c, h⟩ := get_setLeaf_same f leaf d
    exact ⟨c, by simpa [addAt, select, descend] using h⟩
  | cons n ns ih =>
    induction f with
    | nil =>
      obtain ⟨c, h⟩ := ih nil
      refine ⟨c, ?_⟩
      simpa [addAt, select, descend, get?] using h
    | cons k d' ch rest ihc ihr =>
      by_cases hk : k = n
      · subst hk
        obtain ⟨c, h⟩ := ih ch
        exact ⟨c, by simpa [addAt, select, descend, get?] using h⟩
      · obtain ⟨c, h⟩ := ihr
        refine ⟨c, ?_⟩
        simp only [addAt, hk, if_false, select, descend, get?] at h ⊢
        exact h
end Forest
