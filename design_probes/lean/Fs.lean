/-! File-system op model for `skops update` crash safety (prototype). -/
abbrev Path := String
abbrev Bytes := List Nat

structure FS where
  files : List (Path × Bytes)
deriving Repr, DecidableEq

def FS.read (fs : FS) (p : Path) : Option Bytes := (fs.files.find? (·.1 = p)).map (·.2)
def FS.write (fs : FS) (p : Path) (b : Bytes) : FS :=
  ⟨(p, b) :: fs.files.filter (·.1 ≠ p)⟩
def FS.remove (fs : FS) (p : Path) : FS := ⟨fs.files.filter (·.1 ≠ p)⟩

inductive Op
  | truncate (p : Path)                 -- open(p, "wb")
  | append (p : Path) (chunk : Bytes)   -- write
  | rename (src dst : Path)             -- atomic
  | unlink (p : Path)
deriving Repr, DecidableEq

def step (fs : FS) : Op → FS
  | .truncate p => fs.write p []
  | .append p c => fs.write p ((fs.read p).getD [] ++ c)
  | .rename s d => match fs.read s with
      | some b => (fs.remove s).write d b
      | none => fs
  | .unlink p => fs.remove p

def run (fs : FS) (ops : List Op) : FS := ops.foldl step fs

/-- write `data` to `p` in chunks -/
def writeFile (p : Path) (chunks : List Bytes) : List Op := .truncate p :: chunks.map (.append p)

/-- same-filesystem update: write temp beside nothing important, then atomic rename -/
def updateSameFs (tmp dst : Path) (chunks : List Bytes) : List Op := writeFile tmp chunks ++ [.rename tmp dst]
/-- cross-filesystem `shutil.move`: copy (truncate + appends) then unlink source -/
def updateCrossFs (tmp dst : Path) (chunks : List Bytes) : List Op :=
  writeFile tmp chunks ++ writeFile dst chunks ++ [.unlink tmp]

theorem read_write_other (fs : FS) (p q : Path) (b : Bytes) (h : q ≠ p) : (fs.write p b).read q = fs.read q := by
  simp only [FS.read, FS.write, List.find?_cons]
  have : ¬ (p = q) := fun e => h e.symm
  simp [this, List.find?_filter]
  congr 1
  induction fs.files with
  | nil => rfl
  | cons x xs ih =>
    simp only [List.find?_cons]
    by_cases hx : x.1 = q
    · simp [hx, h]
    · simp [hx, ih]

theorem writeFile_preserves (fs : FS) (tmp dst : Path) (chunks : List Bytes) (h : dst ≠ tmp) (k : Nat) :
    (run fs ((writeFile tmp chunks).take k)).read dst = fs.read dst := by
  suffices ∀ (ops : List Op), (∀ o ∈ ops, o = .truncate tmp ∨ ∃ c, o = .append tmp c) →
      ∀ fs : FS, (run fs ops).read dst = fs.read dst by
    apply this
    intro o ho
    have := List.mem_of_mem_take ho
    simp [writeFile] at this
    rcases this with rfl | ⟨c, _, rfl⟩
    · exact Or.inl rfl
    · exact Or.inr ⟨c, rfl⟩
  intro ops
  induction ops with
  | nil => intro _ fs; rfl
  | cons o os ih =>
    intro hall fs
    have ho := hall o (List.mem_cons_self ..)
    have hos : ∀ o' ∈ os, o' = .truncate tmp ∨ ∃ c, o' = .append tmp c :=
      fun o' h' => hall o' (List.mem_cons_of_mem _ h')
    simp only [run, List.foldl_cons] at *
    rw [ih hos]
    rcases ho with rfl | ⟨c, rfl⟩ <;> simp [step, read_write_other _ _ _ _ h]

-- the cross-filesystem variant is NOT crash safe: concrete witness
example : (run ⟨[("dst", [1,2,3])]⟩ ((updateCrossFs "tmp" "dst" [[7],[8]]).take 5)).read "dst" = some [7] := by decide
#print axioms writeFile_preserves
