/-! Model of `split_subsection_names` and of its specification; executable comparison on witnesses. -/
def PH : Char := '\x1f'
def pySpace (c : Char) : Bool :=
  c.val ∈ [0x9,0xa,0xb,0xc,0xd,0x1c,0x1d,0x1e,0x1f,0x20,0x85,0xa0,0x1680,0x2000,0x2001,0x2002,0x2003,0x2004,0x2005,
           0x2006,0x2007,0x2008,0x2009,0x200a,0x2028,0x2029,0x202f,0x205f,0x3000]

def replaceEsc : List Char → List Char
  | '\\' :: '/' :: rest => PH :: replaceEsc rest
  | c :: rest => c :: replaceEsc rest
  | [] => []

/-- Python `s.split("/")` : always at least one part -/
def splitOn (sep : Char) : List Char → List (List Char)
  | [] => [[]]
  | c :: rest =>
    if c = sep then [] :: splitOn sep rest
    else match splitOn sep rest with
      | [] => [[c]]            -- unreachable
      | p :: ps => (c :: p) :: ps

def strip (s : List Char) : List Char :=
  ((s.dropWhile pySpace).reverse.dropWhile pySpace).reverse

def splitImpl (key : List Char) : List (List Char) :=
  (splitOn '/' (replaceEsc key)).map fun p => (strip p).map fun c => if c = PH then '/' else c

/-- Specification in the property's own words: tokens are ordinary chars, literal slashes (from `\/`), separators. -/
inductive Tok | ch (c : Char) | lit | sep
deriving DecidableEq, Repr

def tokenize : List Char → List Tok
  | '\\' :: '/' :: rest => .lit :: tokenize rest
  | '/' :: rest => .sep :: tokenize rest
  | c :: rest => .ch c :: tokenize rest
  | [] => []

def splitToks : List Tok → List (List Tok)
  | [] => [[]]
  | .sep :: rest => [] :: splitToks rest
  | t :: rest => match splitToks rest with
      | [] => [[t]]
      | p :: ps => (t :: p) :: ps

def tokSpace : Tok → Bool | .ch c => pySpace c | _ => false
def stripToks (s : List Tok) : List Tok := ((s.dropWhile tokSpace).reverse.dropWhile tokSpace).reverse
def render : Tok → Char | .ch c => c | .lit => '/' | .sep => '/'
def splitSpec (key : List Char) : List (List Char) :=
  (splitToks (tokenize key)).map fun p => (stripToks p).map render

-- negation witnesses (decided by evaluation)
example : splitImpl "\\/a".toList ≠ splitSpec "\\/a".toList := by decide
example : splitSpec "\\/a".toList = ["/a".toList] := by decide
example : splitImpl "\\/a".toList = ["a".toList] := by decide
example : splitImpl "a\x1fb".toList = ["a/b".toList] := by decide
example : splitImpl "Spaces are / stripped".toList = ["Spaces are".toList, "stripped".toList] := by decide
example : splitImpl "A section containing \\/ a slash".toList = splitSpec "A section containing \\/ a slash".toList := by decide
#eval (splitImpl "x/ \\/a /y".toList).map String.ofList
#eval (splitSpec "x/ \\/a /y".toList).map String.ofList
