abbrev Name := String

inductive NameSrc where
  | selfName | const (m c : String) | constModSelfCls (m : String) | synthChild (key : String)
  | fromArchiveData (desc : String)
deriving Repr, DecidableEq

inductive Use where
  | resolve (n : NameSrc) | callResolved (n : NameSrc) | callChildValue (key : String)
  | getattrOnChild (objKey : String) (attrFromArchive : Bool) | lib (name : String) | unknown (src : String)
deriving Repr, DecidableEq

inductive SelfCheck | standard | always | fixed (ns : List Name)
deriving Repr, DecidableEq

structure KindSpec where
  loader : String
  protocol : Nat
  check : SelfCheck
  defaults : List Nat
  uses : List Use
  initUses : List Use
deriving Repr

def fixedOk : List (String × String) := [("numpy.random.bit_generator", "SeedSequence")]
def libOk : List String := ["json.loads", "np.load", "load_npz", "slice", "partial", "defaultdict", "np.ma.MaskedArray", "np.array", "np.ndarray", "bytearray"]

def NameSrc.vouched (c : SelfCheck) : NameSrc → Bool
  | .selfName => c == .standard
  | .const m k => fixedOk.contains (m, k)
  | .synthChild _ => true
  | .constModSelfCls _ => false
  | .fromArchiveData _ => false

def Use.vouched (c : SelfCheck) : Use → Bool
  | .resolve n | .callResolved n => n.vouched c
  | .callChildValue _ => true
  | .getattrOnChild _ fromArchive => !fromArchive
  | .lib n => libOk.contains n
  | .unknown _ => false

def KindSpec.usesVouched (k : KindSpec) : Bool := k.uses.all (Use.vouched k.check)
def KindSpec.initInert (k : KindSpec) : Bool := k.initUses.isEmpty

def table : List KindSpec := [
  { loader := "ListNode", protocol := 2, check := .standard, defaults := [3],
    uses := [.resolve .selfName, .callResolved .selfName], initUses := [] },
  { loader := "JsonNode", protocol := 2, check := .always, defaults := [],
    uses := [.lib "json.loads"], initUses := [] },
  { loader := "RandomGeneratorNode", protocol := 2, check := .standard, defaults := [7],
    uses := [.resolve (.const "numpy.random.bit_generator" "SeedSequence"),
             .callResolved (.const "numpy.random.bit_generator" "SeedSequence"),
             .resolve (.fromArchiveData "children.bit_generator_state.construct()['bit_generator']"),
             .callResolved (.fromArchiveData "…"), .resolve .selfName, .callResolved .selfName], initUses := [] },
  { loader := "MethodNode", protocol := 2, check := .standard, defaults := [],
    uses := [.getattrOnChild "obj" true], initUses := [] },
  { loader := "LossNode", protocol := 2, check := .standard, defaults := [9, 10],
    uses := [.resolve (.synthChild "constructor"), .callResolved (.synthChild "constructor")],
    initUses := [.resolve (.fromArchiveData "state.__module__/__class__")] } ]

def knownUnsafe : List (String × Nat) := [("RandomGeneratorNode", 2), ("MethodNode", 2)]
def knownInit : List (String × Nat) := [("LossNode", 2)]

theorem table_uses_ok : ∀ k ∈ table, k.usesVouched = true ∨ (k.loader, k.protocol) ∈ knownUnsafe := by decide
theorem table_init_ok : ∀ k ∈ table, k.initInert = true ∨ (k.loader, k.protocol) ∈ knownInit := by decide
-- negation witness: the full-strength obligation is false today
theorem table_uses_not_all : ¬ ∀ k ∈ table, k.usesVouched = true := by decide
#print axioms table_uses_ok
