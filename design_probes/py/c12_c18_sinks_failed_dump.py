from mk import *
import numpy as np, zipfile, io, json, os, pathlib, threading, sys
from scipy import sparse
from sklearn.linear_model import LogisticRegression
obj = {"a": np.arange(5), "b": [b"xy", bytearray(b"z")], "c": sparse.csr_matrix(np.eye(2)), "m": LogisticRegression().fit([[0],[1]],[0,1])}
def norm(schema):
    ids={}; files={}
    def w(x):
        if isinstance(x, dict):
            out={}
            for k,v in x.items():
                if k=="__id__": out[k]=ids.setdefault(v,len(ids))
                elif k=="file": out[k]=files.setdefault(v,f"f{len(files)}")
                else: out[k]=w(v)
            return out
        if isinstance(x, list): return [w(v) for v in x]
        return x
    return w(schema)
def info(data):
    z = zipfile.ZipFile(io.BytesIO(data)); sch=json.loads(z.read("schema.json"))
    return norm(sch), sorted(len(z.read(n)) for n in z.namelist() if n!="schema.json"), z.namelist(), [i.compress_type for i in z.infolist()]
ref = info(sio.dumps(obj))
print("members", ref[2])
for comp in [zipfile.ZIP_STORED, zipfile.ZIP_DEFLATED, zipfile.ZIP_BZIP2, zipfile.ZIP_LZMA]:
    for lvl in [None, 1, 9]:
        try:
            d = sio.dumps(obj, compression=comp, compresslevel=lvl); i = info(d)
            sio.dump(obj, "x.skops", compression=comp, compresslevel=lvl); i2 = info(open("x.skops","rb").read())
            sio.dump(obj, pathlib.Path("y.skops"), compression=comp, compresslevel=lvl); i3 = info(open("y.skops","rb").read())
            with open("z.skops","wb") as f: sio.dump(obj, f, compression=comp, compresslevel=lvl)
            i4 = info(open("z.skops","rb").read())
            print(comp, lvl, "schema-eq", all(i[0]==x[0]==ref[0] for x in (i2,i3,i4)), "sizes-eq", all(i[1]==x[1]==ref[1] for x in (i2,i3,i4)), set(i[3]))
        except Exception as e: print(comp, lvl, "EXC", type(e).__name__, e)
# C18: failed dump leaves destination untouched
class Bad:
    def __getstate__(self): raise RuntimeError("boom")
open("keep.skops","wb").write(b"OLD")
for bad in [{"a":[1,{"b":(sparse.dok_matrix(np.eye(2)),)}]}, [np.arange(3), Bad()], {"x": lambda: 0}]:
    try: sio.dump(bad, "keep.skops"); print("dumped?!", sio.get_untrusted_types(file="keep.skops"))
    except Exception as e: print("raised", type(e).__name__, "| dest:", open("keep.skops","rb").read()[:10], "| new exists:", os.path.exists("new.skops"))
    try: sio.dump(bad, "new.skops")
    except Exception as e: print("   new path exists after failure:", os.path.exists("new.skops"))
    f = io.BytesIO(b"ABC"); f.seek(3)
    try: sio.dump(bad, f)
    except Exception as e: print("   fileobj:", f.getvalue(), f.tell())
