from mk import *
import numpy as np
class Foo:
    def __init__(self): self.a=[1,2]; self.b={"x":1}
import __main__
d = sio.dumps([Foo(), 1])
for show in ["all","untrusted","trusted"]:
    try:
        out=[]
        sio.visualize(d, show=show, sink=lambda nodes, show, **kw: out.extend(list(sio._visualize._traverse_tree(nodes, show, **kw))))
        print(show, "ok", len(out))
    except Exception as e: print(show, "EXC", type(e).__name__, str(e)[:90])
for o in [slice(1,2), {"key_types": 1}, Foo().__init__, {"a": slice(None)}]:
    try:
        dd = sio.dumps(o) if not isinstance(o, dict) or "key_types" not in o else sio.dumps(type("K",(),{})) 
    except Exception as e: print("dump EXC", e); continue
    try:
        sio.visualize(sio.dumps(o), sink=lambda nodes, show, **kw: list(nodes)); print(repr(o)[:40], "ok")
    except Exception as e: print(repr(o)[:40], "EXC", type(e).__name__, str(e)[:90])
class K: 
    def __init__(self): self.key_types = 3
try:
    sio.visualize(sio.dumps(K()), sink=lambda nodes, show, **kw: list(nodes)); print("K ok")
except Exception as e: print("K EXC", type(e).__name__, str(e)[:90])
