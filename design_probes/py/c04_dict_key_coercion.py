from mk import *
import numpy as np, json, enum, fractions
class E(enum.IntEnum): A=1
class S(str): pass
keys = [1, -0.0, 1e22, float("nan"), True, None, "x", np.int8(5), np.float64(2.5), np.str_("s"), np.bool_(True), b"b", (1,), E.A, S("q"), 10**30, np.uint64(2**63)]
for k in keys:
    try:
        d = sio.dumps({k: 0}); u = sio.get_untrusted_types(data=d)
        sch = json.loads(__import__("zipfile").ZipFile(__import__("io").BytesIO(d)).read("schema.json"))
        txt = list(sch["content"].keys())[0]; kt = sch["key_types"]["content"][0]
        try:
            r = sio.loads(d, trusted=u); rk = list(r.keys())[0]
            ok = type(rk) is type(k) and (rk == k or (rk != rk and k != k))
            print(repr(k), "json:", repr(txt), "ktype:", kt["__module__"]+"."+kt["__class__"], "->", repr(rk), "OK" if ok else "DIFF", u)
        except Exception as e: print(repr(k), "json:", repr(txt), "LOAD-EXC", type(e).__name__, str(e)[:60])
    except Exception as e: print(repr(k), "DUMP-EXC", type(e).__name__, str(e)[:70])
