from mk import *
import numpy as np, operator, functools
from collections import OrderedDict, defaultdict
from scipy import sparse
def rt(o):
    d=sio.dumps(o); u=sio.get_untrusted_types(data=d); return sio.loads(d,trusted=u), u
cases = {
 "obj2d": np.array([[1,"a"],[None,2.5]],dtype=object),
 "obj3d": np.array([[[1],[2]],[[3],[None]]],dtype=object),
 "fortran": np.asfortranarray(np.arange(6.).reshape(2,3)),
 "bigendian": np.arange(3,dtype=">i4"),
 "zero_d": np.array(3.5),
 "zero_len": np.zeros((0,3)),
 "structured": np.zeros(2,dtype=[("a","i4"),("b","f8")]),
 "strarr": np.array(["a","bcd"]),
 "bytesarr": np.array([b"a",b"bcd"]),
 "dt64": np.array(["2020-01-01"],dtype="datetime64[D]"),
 "scalar": np.float32(1.5), "npbool": np.bool_(True), "npstr": np.str_("x"),
 "masked": np.ma.MaskedArray([1,2,3],mask=[0,1,0]),
 "masked_nomask": np.ma.MaskedArray([1,2,3]),
 "dtype": np.dtype("float32"), "dtype_struct": np.dtype([("a","i4")]),
 "neg0": -0.0, "nan": float("nan"), "inf": [float("inf")], "bigint": 10**100,
 "nulstr": "a\x00b", "uni": "é😀",
 "tuple_in_set": {(1,2),(3,)}, "od": OrderedDict([("b",1),("a",2)]),
 "bytes": b"\x00\xff", "bytearray": bytearray(b"ab"), "slice": slice(1,None,2),
 "partial": functools.partial(np.add, 1), "attrgetter": operator.attrgetter("a.b","c"), "itemgetter": operator.itemgetter(1,"x"),
 "ufunc": np.sqrt, "type": int, "nptype": np.float64, "builtin": len,
 "rs": np.random.RandomState(3), "gen_mt": np.random.Generator(np.random.MT19937(1)), "gen_philox": np.random.Generator(np.random.Philox(1)), "gen_sfc": np.random.Generator(np.random.SFC64(1)),
 "csr": sparse.csr_matrix(np.eye(3)), "coo_arr": sparse.coo_array(np.eye(2)), "dia": sparse.dia_matrix(np.eye(2)), "bsr": sparse.bsr_matrix(np.eye(4)), "csc_arr": sparse.csc_array(np.eye(2)),
 "dok": sparse.dok_matrix(np.eye(2)), "lil": sparse.lil_matrix(np.eye(2)),
 "float_keys": {1.5:"a", float("inf"):"b"}, "neg_int_keys": {-1:"a"}, "mixed_keys": {1:"a","b":2,2.5:"c"},
 "empty": [[],(),{},set(),""], "nested": {"a":[(1,{"b":{2}})]},
 "empty_obj1d": np.array([],dtype=object),
}
for k,o in cases.items():
    try:
        r,u = rt(o)
        same = type(r) is type(o)
        extra = ""
        if isinstance(o,np.ndarray) and not isinstance(o,np.ma.MaskedArray):
            extra = f"dtype {o.dtype}->{r.dtype} shape {o.shape}->{r.shape} F={o.flags.f_contiguous}->{r.flags.f_contiguous} eq={np.array_equal(o,r) if o.dtype!=object else (o.tolist()==r.tolist())}"
        elif sparse.issparse(o): extra = f"{type(o).__name__}->{type(r).__name__} eq={(o!=r).nnz==0}"
        elif isinstance(o,(np.random.RandomState,np.random.Generator)): extra = f"stream eq={np.array_equal(o.random(5), r.random(5))}"
        else: extra = f"{o!r} -> {r!r}"
        print(k, "type-same" if same else f"TYPE {type(o).__name__}->{type(r).__name__}", extra[:150], "U=",u)
    except Exception as e: print(k, "EXC", type(e).__name__, str(e)[:120])
