from mk import *
import numpy as np, time
from scipy.sparse import csr_matrix, csr_array
from collections import defaultdict, OrderedDict
for o in [csr_matrix(np.eye(2)), csr_array(np.eye(2))]:
    print(type(o).__name__, sio.get_untrusted_types(data=sio.dumps(o)))
for o in [defaultdict(int,{1:2}), defaultdict(list,{"a":[1]}), OrderedDict([(2,1),(1,2)]), {np.int64(3):1, np.float32(1.5):2}]:
    try:
        d=sio.dumps(o); u=sio.get_untrusted_types(data=d); r=sio.loads(d,trusted=u); print(repr(o),"->",repr(r),u, [type(k) for k in r])
    except Exception as e: print(repr(o),"EXC",type(e).__name__,str(e)[:100])
# exponential audit
def evil(n):
    node = L(J(1)); node["__id__"]=1
    for i in range(2,n+2):
        node = {"__class__":"list","__module__":"builtins","__loader__":"ListNode","content":[node, {"__id__":i-1}], "__id__":i}
    return mk(node)
for n in [10,16,18,20]:
    d=evil(n); t=time.time(); sio.get_untrusted_types(data=d); print(n, len(d), round(time.time()-t,3))
