from mk import *
import numpy as np, json, zipfile, io
from sklearn.tree import DecisionTreeClassifier
from sklearn.tree._tree import Tree
# F06: make some list in the archive carry __id__ == id(Tree) of this (loader) process
t = DecisionTreeClassifier(max_depth=1).fit([[0],[1]],[0,1])
obj = [t.tree_, ["payload"], ["payload"]]
obj[2] = obj[1]  # shared list
d = sio.dumps(obj)
z = zipfile.ZipFile(io.BytesIO(d)); sch = json.loads(z.read("schema.json"))
files = {n: z.read(n) for n in z.namelist() if n != "schema.json"}
# rewrite the shared list's id to id(Tree): any consistent renaming of ids is an equally valid dump history
old = sch["content"][1]["__id__"]; new = id(Tree)
def ren(x):
    if isinstance(x, dict):
        if x.get("__id__") == old: x["__id__"] = new
        for v in x.values(): ren(v)
    elif isinstance(x, list):
        for v in x: ren(v)
ren(sch)
# put the shared list first so that its memo entry gets overwritten by the synthetic TypeNode
sch["content"] = [sch["content"][1], sch["content"][0], sch["content"][2]]
try:
    r = sio.loads(mk(sch, files)); print("loaded:", [type(x).__name__ for x in r], r[0], r[2])
except Exception as e: print("EXC", type(e).__name__, e)
# F15d
from skops.card._markup import Markdown
m = Markdown()
good = {"t":"BulletList","c":[[{"t":"Plain","c":[{"t":"Str","c":"a"},{"t":"SoftBreak"},{"t":"Str","c":"b"}]}]]}
bad = {"t":"BulletList","c":[[{"t":"Plain","c":[{"t":"Nope","c":[]}]}]]}
a = m(good)
try: m(bad)
except ValueError as e: pass
b = m(good); print(repr(a), repr(b), m._indent_trace)
