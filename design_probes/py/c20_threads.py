from mk import *
import numpy as np, threading, sys, json, zipfile, io, hashlib
from skops.card import Card
from sklearn.linear_model import LogisticRegression
from sklearn.pipeline import make_pipeline
from sklearn.preprocessing import StandardScaler, FunctionTransformer
sys.setswitchinterval(1e-6)
objs = [{"a": np.arange(50), "b": [1,2,{"c": (1,2)}]}, make_pipeline(FunctionTransformer(np.sqrt), StandardScaler(), LogisticRegression()).fit([[0.],[1.],[4.]],[0,1,1]), [np.random.RandomState(1), {1.5: "x"}], {"s": {1,2,3}, "o": np.array([1,"a",None],dtype=object)}]
def norm(data):
    z = zipfile.ZipFile(io.BytesIO(data)); sch=json.loads(z.read("schema.json")); ids={}; files={}
    def w(x):
        if isinstance(x, dict): return {k:(ids.setdefault(v,len(ids)) if k=="__id__" else files.setdefault(v,len(files)) if k=="file" else w(v)) for k,v in x.items()}
        if isinstance(x, list): return [w(v) for v in x]
        return x
    return hashlib.sha1(json.dumps(w(sch),sort_keys=True).encode()).hexdigest(), sorted(hashlib.sha1(z.read(n)).hexdigest() for n in z.namelist() if n!="schema.json")
iso = [norm(sio.dumps(o)) for o in objs]
isou = [sio.get_untrusted_types(data=sio.dumps(o)) for o in objs]
def card_ops(i):
    c = Card(None, template=None); c.add(**{f"A{i}": "a", f"A{i}/B": "b"}); c.add_metrics(section=f"A{i}/M", **{f"m{i}": i}); c.add_table(**{f"T{i}": {"c":[i]}}); return c.render(), c.get_toc()
isoc = [card_ops(i) for i in range(4)]
bad = []
def worker(tid):
    for rep in range(30):
        for i,o in enumerate(objs):
            d = sio.dumps(o)
            if norm(d) != iso[i]: bad.append(("dumps", tid, i))
            if sio.get_untrusted_types(data=d) != isou[i]: bad.append(("untrusted", tid, i))
            r = sio.loads(d, trusted=isou[i])
            if norm(sio.dumps(r)) != iso[i]: bad.append(("loads", tid, i))
            out=[]; sio.visualize(d, sink=lambda nodes, show, **kw: out.extend((n.level,n.key,n.is_safe) for n in nodes))
        for i in range(4):
            if card_ops(i) != isoc[i]: bad.append(("card", tid, i))
ts = [threading.Thread(target=worker, args=(t,)) for t in range(8)]
[t.start() for t in ts]; [t.join() for t in ts]
print("disagreements:", len(bad), bad[:5])
import warnings; print("warning filters len", len(warnings.filters))
