from mk import *
import numpy as np
from collections import defaultdict, namedtuple
class MyDD(defaultdict): pass
class MyT(tuple): pass
NT = namedtuple("NT", "a b")
import __main__
def rt(o, T=None):
    d=sio.dumps(o); u=sio.get_untrusted_types(data=d); return sio.loads(d,trusted=u if T is None else T), u
# DefaultDictNode ignores T
o = MyDD(int, {"a":1})
d = sio.dumps(o); u = sio.get_untrusted_types(data=d); print("reported", u)
try: print(sio.loads(d, trusted=u))
except Exception as e: print("EXC", type(e).__name__, e)
for name,o in {"tuple_subclass": MyT((1,2)), "namedtuple": NT(1,2), "prop": {"a": property(), "b": 1},
               "obj_zero_axis": np.empty((0,3),dtype=object), "obj_seq_cells": np.array([[ [1,2],[3,4] ],[ [5,6],[7,8] ]],dtype=object)[:, :, 0:1].reshape(2,2) if False else None}.items():
    if o is None: continue
    try:
        r,u = rt(o); print(name, repr(o)[:50], "->", type(r).__name__, repr(r)[:60], getattr(r,'shape',None), u)
    except Exception as e: print(name, "EXC", type(e).__name__, str(e)[:100])
a = np.empty((2,2),dtype=object); a[0,0]=[1,2]; a[0,1]=[3,4]; a[1,0]=[5,6]; a[1,1]=[7,8]
r,u = rt(a); print("obj_seq_cells", a.shape, "->", r.shape)
a = np.empty((2,),dtype=object); a[0]=[1,2]; a[1]=[3,4]
r,u = rt(a); print("obj_seq_cells_1d", a.shape, "->", r.shape)
# sharing
l=[1]; o=[l,l,[1]]; r,_=rt(o); print("share", r[0] is r[1], r[0] is r[2])
x=np.arange(3); o={"a":x,"b":x}; d=sio.dumps(o); import zipfile,io; print(zipfile.ZipFile(io.BytesIO(d)).namelist())
