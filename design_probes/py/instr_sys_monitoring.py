from mk import *
import sys, os
events=[]
import skops.io._general as G, skops.io._utils as U, skops.io._numpy as N, skops.io._sklearn as S, skops.io._audit as A
mods = {m.__file__ for m in [G,U,N,S,A]}
mon = sys.monitoring
TID = 3
mon.use_tool_id(TID, "verif")
def on_call(code, off, callable_, arg0):
    if code.co_filename in mods:
        q = getattr(callable_, "__qualname__", None); m = getattr(callable_, "__module__", None)
        events.append((os.path.basename(code.co_filename), code.co_name, f"{m}.{q}"))
mon.register_callback(TID, mon.events.CALL, on_call)
mon.set_events(TID, mon.events.CALL)
sch = {"__class__":"methodcaller","__module__":"sklearn.innocent","__loader__":"OperatorFuncNode","attrs":T(J("upper"))}
d = mk(sch)
r = sio.loads(d, trusted=["sklearn.innocent.methodcaller"])
mon.set_events(TID, 0)
for e in events:
    if e[1] in ("_construct","gettype","_import_obj"): print(e)
