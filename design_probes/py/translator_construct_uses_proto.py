"""Prototype: classify every call in each node class's _construct (MRO-resolved) by provenance of callee and args."""
import ast, inspect, json, sys, textwrap
import skops.io
from skops.io._audit import NODE_TYPE_MAPPING, Node

RESOLVERS = {"gettype", "_import_obj"}
def sym(e, env):
    """provenance of an expression"""
    if isinstance(e, ast.Constant): return ("const", e.value)
    if isinstance(e, ast.Name): return env.get(e.id, ("global", e.id))
    if isinstance(e, ast.Attribute):
        s = ast.unparse(e)
        if s in ("self.module_name", "self.class_name"): return ("selfname", s.split(".")[1])
        b = sym(e.value, env)
        if b[0] == "childnode": return ("childnode_attr", b[1], e.attr)
        return ("attr", b, e.attr)
    if isinstance(e, ast.Subscript):
        s = ast.unparse(e.value)
        if s == "self.children" and isinstance(e.slice, ast.Constant): return ("childnode", e.slice.value)
        b = sym(e.value, env)
        return ("index", b, sym(e.slice, env))
    if isinstance(e, ast.Call):
        f = ast.unparse(e.func)
        if f in RESOLVERS: return ("resolved", [sym(a, env) for a in e.args])
        if f == "getattr": return ("getattr", [sym(a, env) for a in e.args])
        if isinstance(e.func, ast.Attribute) and e.func.attr == "construct":
            return ("childvalue", sym(e.func.value, env))
        if f == "super()._construct": return ("super_construct",)
        return ("callresult", sym(e.func, env))
    if isinstance(e, (ast.ListComp, ast.GeneratorExp)):
        env2 = dict(env); g = e.generators[0]
        it = sym(g.iter, env)
        for n in ast.walk(g.target):
            if isinstance(n, ast.Name): env2[n.id] = ("elem", it)
        return ("comp", sym(e.elt, env2))
    if isinstance(e, ast.Starred): return ("star", sym(e.value, env))
    if isinstance(e, ast.JoinedStr): return ("fstring",)
    if isinstance(e, (ast.Tuple, ast.List)): return ("seq", [sym(x, env) for x in e.elts])
    return ("other", type(e).__name__)

def uses_of(cls):
    for k in cls.__mro__:
        if "_construct" in k.__dict__: owner = k; break
    fn = ast.parse(textwrap.dedent(inspect.getsource(owner._construct))).body[0]
    env, uses = {}, []
    class V(ast.NodeVisitor):
        def visit_Assign(self, n):
            self.generic_visit(n)
            for t in n.targets:
                if isinstance(t, ast.Name): env[t.id] = sym(n.value, env)
        def visit_For(self, n):
            it = sym(n.iter, env)
            for x in ast.walk(n.target):
                if isinstance(x, ast.Name): env[x.id] = ("elem", it)
            self.generic_visit(n)
        def visit_Call(self, n):
            self.generic_visit(n)
            f = ast.unparse(n.func)
            if f in RESOLVERS: uses.append(("RESOLVE", [sym(a, env) for a in n.args]))
            elif f == "getattr": uses.append(("GETATTR", [sym(a, env) for a in n.args]))
            elif isinstance(n.func, ast.Attribute) and n.func.attr == "construct": pass
            else:
                callee = sym(n.func, env)
                uses.append(("CALL", callee))
    V().visit(fn)
    return owner.__name__, uses

for (loader, proto), cls in sorted(NODE_TYPE_MAPPING.items()):
    owner, uses = uses_of(cls)
    print(f"== {loader}@{proto} (_construct from {owner})")
    for u in uses: print("    ", json.dumps(u, default=str)[:200])
