# quick facts for the design: python whitespace set, registry, emitted loaders
import ast, sys, skops.io, inspect
from skops.io._audit import NODE_TYPE_MAPPING
from skops.io._protocol import PROTOCOL
ws = [c for c in range(0x110000) if chr(c).isspace()]
print("pyspace", [hex(c) for c in ws])
print("PROTOCOL", PROTOCOL, sorted((k, v.__module__.split('.')[-1]) for k, v in NODE_TYPE_MAPPING.items() if k[1] != PROTOCOL))
emitted = set()
import skops.io._general as G, skops.io._numpy as N, skops.io._scipy as S, skops.io._sklearn as K, skops.io._quantile_forest as Q
for m in [G,N,S,K,Q]:
    t = ast.parse(inspect.getsource(m))
    for n in ast.walk(t):
        if isinstance(n, ast.Dict):
            for k,v in zip(n.keys,n.values):
                if isinstance(k, ast.Constant) and k.value=="__loader__" and isinstance(v, ast.Constant): emitted.add(v.value)
        if isinstance(n, ast.Assign) and isinstance(n.targets[0], ast.Subscript) and isinstance(n.targets[0].slice, ast.Constant) and n.targets[0].slice.value=="__loader__":
            emitted.add(n.value.value)
print("emitted", sorted(emitted)); print("unregistered", sorted(e for e in emitted if (e,PROTOCOL) not in NODE_TYPE_MAPPING))
from skops.io._utils import _get_state
import collections, functools, operator, numpy as np
for c in [dict, collections.OrderedDict, collections.Counter, collections.defaultdict, list, tuple, set, frozenset, collections.deque, range, bytes, bytearray, slice, type, type(len), type(lambda:0), functools.partial, operator.attrgetter, np.ndarray, np.float64, np.ma.MaskedArray, np.ufunc, np.dtype, np.random.RandomState, np.random.Generator, object, int, str, type(None), complex]:
    print(c.__name__, "->", _get_state.dispatch(c).__name__, end="; ")
