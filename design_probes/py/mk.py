import io, json, zipfile, sys
import skops.io as sio
def mk(schema, files=None, protocol=2):
    schema = dict(schema); schema.setdefault("protocol", protocol); schema.setdefault("_skops_version","0.12.dev0")
    b = io.BytesIO()
    with zipfile.ZipFile(b,"w") as z:
        for k,v in (files or {}).items(): z.writestr(k,v)
        z.writestr("schema.json", json.dumps(schema))
    return b.getvalue()
def J(v): return {"__class__":"str","__module__":"builtins","__loader__":"JsonNode","content":json.dumps(v),"is_json":True}
def T(*items): return {"__class__":"tuple","__module__":"builtins","__loader__":"TupleNode","content":list(items)}
def L(*items): return {"__class__":"list","__module__":"builtins","__loader__":"ListNode","content":list(items)}
def D(d, cls="dict", mod="builtins"): 
    return {"__class__":cls,"__module__":mod,"__loader__":"DictNode","content":{k:v for k,v in d.items()},
            "key_types": L(*[{"__class__":"str","__module__":"builtins","__loader__":"TypeNode"} for _ in d])}
