from mk import *
# C02: LossNode imports module at init
import sys
assert 'antigravity' not in sys.modules
sch = {"__class__":"fly","__module__":"this","__loader__":"LossNode","__reduce__":{"args":T()},"content":D({})}
assert 'this' not in sys.modules
try:
    print(sio.get_untrusted_types(data=mk(sch)))
except Exception as e: print("EXC", type(e).__name__, e)
print('this' in sys.modules)
# C01: OperatorFuncNode with misleading module name
sch = {"__class__":"methodcaller","__module__":"sklearn.innocent","__loader__":"OperatorFuncNode","attrs":T(J("upper"))}
d = mk(sch)
u = sio.get_untrusted_types(data=d); print(u)
r = sio.loads(d, trusted=u); print(r, r("abc"))
# MethodNode: func unaudited
sch = {"__class__":"x","__module__":"y","__loader__":"MethodNode","content":{"func":"__class__","obj":J(1)}}
d = mk(sch); u = sio.get_untrusted_types(data=d); print("method untrusted:", u)
try:
    print(sio.loads(d, trusted=u))
except Exception as e: print("EXC", type(e).__name__, e)
