import sys, json, zipfile, io, random, subprocess, os, warnings, time
warnings.simplefilter("ignore")
import numpy as np, skops.io as sio
from sklearn.tree import DecisionTreeClassifier
from sklearn.ensemble import HistGradientBoostingClassifier
from sklearn.neighbors import KNeighborsClassifier
from sklearn.linear_model import SGDClassifier
X = np.random.RandomState(0).rand(30,3); y = (X[:,0]>0.5).astype(int)
bases = [sio.dumps(m.fit(X,y)) for m in [DecisionTreeClassifier(max_depth=3), KNeighborsClassifier(algorithm="kd_tree"), SGDClassifier(max_iter=5), HistGradientBoostingClassifier(max_iter=3)]]
WORKER = r'''
import sys, warnings; warnings.simplefilter("ignore")
import skops.io as sio
d = open(sys.argv[1],"rb").read()
try:
    u = sio.get_untrusted_types(data=d); o = sio.loads(d, trusted=u)
    try:
        import numpy as np
        if hasattr(o, "predict"): o.predict(np.zeros((2,3)))
    except Exception as e: pass
    print("OK")
except BaseException as e: print("EXC", type(e).__name__)
'''
open("worker.py","w").write(WORKER)
rnd = random.Random(int(sys.argv[1]) if len(sys.argv)>1 else 0)
def mutate(data):
    z = zipfile.ZipFile(io.BytesIO(data)); files = {n: z.read(n) for n in z.namelist()}
    kind = rnd.choice(["npy_bytes","npy_bytes","schema_swap","schema_num","trunc"])
    names = [n for n in files if n!="schema.json"]
    if kind=="npy_bytes" and names:
        n = rnd.choice(names); b = bytearray(files[n])
        for _ in range(rnd.randint(1,8)):
            i = rnd.randrange(len(b)); b[i] = rnd.randrange(256)
        files[n] = bytes(b)
    elif kind=="schema_swap" and len(names)>=2:
        a,b = rnd.sample(names,2); files[a],files[b] = files[b],files[a]
    elif kind=="schema_num":
        s = files["schema.json"].decode(); import re
        nums = list(re.finditer(r'"content": "(-?\d+)"', s))
        if nums:
            m = rnd.choice(nums); s = s[:m.start(1)] + str(rnd.choice([-1,0,2**31,2**63,10**30])) + s[m.end(1):]
        files["schema.json"] = s.encode()
    elif names:
        n = rnd.choice(names); files[n] = files[n][:rnd.randrange(len(files[n]))]
    out = io.BytesIO()
    with zipfile.ZipFile(out,"w") as zz:
        for n,b in files.items(): zz.writestr(n,b)
    return kind, out.getvalue()
res = {}
t0=time.time()
for i in range(int(sys.argv[2]) if len(sys.argv)>2 else 60):
    kind, d = mutate(rnd.choice(bases)); open("mut.skops","wb").write(d)
    try:
        p = subprocess.run(["/venv/bin/python","worker.py","mut.skops"], capture_output=True, text=True, timeout=60)
        key = (p.returncode, p.stdout.strip().split()[0] if p.stdout.strip() else "NOOUT")
    except subprocess.TimeoutExpired: key = ("TIMEOUT",)
    res[key] = res.get(key,0)+1
    if key[0] not in (0,) : 
        os.rename("mut.skops", f"crash_{i}_{kind}.skops"); print("ABNORMAL", key, kind, i, flush=True)
print(res, round(time.time()-t0))
