from skops.card import Card
from skops.card._parser import PandocParser
import json
c = Card(None, template=None)
c.add(**{"A": "a", "A/B": "b", "A/B/C": "c", "D": "d"})
c.select("A").folded = True
print(repr(c.render())); print(c.get_toc())
c2 = Card(None, template=None)
c2.add_table(**{"X/Y/T": {"col":[1,"a\nb"]}})
print(repr(c2.render()))
c3 = Card(None, template=None)
c3.add_plot(**{"P1": "p1.png", "Q/P2": "p2.png"})
print(repr(c3.render()))
c4 = Card(None, template=None); c4.add(**{"/a":"x"}); print(c4._data.keys(), c4.select("/a"))
def H(l, t): return {"t":"Header","c":[l,["",[],[]],[{"t":"Str","c":t}]]}
def P(t): return {"t":"Para","c":[{"t":"Str","c":t}]}
def parse(blocks): return PandocParser(json.dumps({"blocks":blocks})).generate()
print(parse([H(1,"A"),P("t1"),H(3,"B"),P("t2"),H(3,"C"),P("t3")]).get_toc())
print('--'); print(parse([H(3,"X"),H(2,"Y")]).get_toc())
print('--'); print(parse([H(1,"In/Out"),P("z")]).get_toc())
print('--'); print(repr(parse([H(1,"A"),P("t1"),H(1,"A"),P("t2")]).render()))
