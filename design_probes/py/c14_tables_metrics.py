import warnings; warnings.simplefilter("ignore")
import pandas as pd
from skops.card import Card
from sklearn.linear_model import LogisticRegression
t = {"a": [1, None, 2.5, "x\ny"], "b|c": ["é", "", " sp ", "p|q"]}
c1 = Card(None, template=None); c1.add_table(**{"T": t})
c2 = Card(None, template=None); c2.add_table(**{"T": pd.DataFrame(t)})
print(c1.render() == c2.render()); print(c1.render())
c = Card(None, template=None)
c.add_metrics(section="M", acc=0.5, f1=1); c.add_metrics(section="M", acc=0.7, auc="hi"); print(c.render())
c2 = Card(None, template=None); c2.add_metrics(section="M/N", description="d", x=1); c2.add_metrics(section="Other", y=2); print(c2.get_toc()); print(c2.select("Other").format())
m = LogisticRegression(C=2)
c3 = Card(m, template=None); c3.add_hyperparams(section="H/P")
sec = c3.select("H/P"); print(sec.title, list(sec.table["Hyperparameter"]) == list(m.get_params(deep=True).keys()), sec.folded)
