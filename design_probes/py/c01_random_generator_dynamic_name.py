from mk import *
import numpy as np, zipfile, io, json
g = np.random.default_rng(1)
good = sio.dumps(g)
sch = json.loads(zipfile.ZipFile(io.BytesIO(good)).read("schema.json"))
for name in ["seed", "default_rng", "bytes", "Generator"]:
    sch["content"]["bit_generator"]["content"]["bit_generator"]["content"] = json.dumps(name)
    np.random.seed(0); before = np.random.get_state()[1][:3].copy()
    try:
        r = sio.loads(mk(sch)); print(name, "loaded", r)
    except Exception as e: print(name, "EXC", type(e).__name__, str(e)[:80])
    after = np.random.get_state()[1][:3]
    print(" global state changed:", not (before==after).all(), sio.get_untrusted_types(data=mk(sch)))
