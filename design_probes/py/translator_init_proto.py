"""Prototype: symbolic extraction of per-node-kind facts from skops.io node classes."""
import ast, inspect, json, sys, textwrap
import skops.io  # fills registry
from skops.io._audit import NODE_TYPE_MAPPING, Node
from skops.io._utils import get_type_paths

# ---------- symbolic values ----------
def S(tag, **kw): return {"tag": tag, **kw}
UNKNOWN = lambda why: S("unknown", why=why)

class Env(dict): pass

def src_of(fn):
    return ast.parse(textwrap.dedent(inspect.getsource(fn))).body[0]

class InitExec:
    """Abstractly execute __init__ chain of a node class."""
    def __init__(self, cls):
        self.cls = cls
        self.effects = []      # non-inert calls
        self.attrs = {}        # self.<attr> -> symbolic
        self.raises = []
    def run(self):
        env = Env(state=S("state", path=[]), load_context=S("ctx"), trusted=S("T", extra=[]), self=S("self"))
        self.exec_init(self.cls, env)
        return self
    def find_init(self, cls):
        for k in cls.__mro__:
            if "__init__" in k.__dict__ and k is not object:
                return k
    def exec_init(self, cls, env):
        owner = self.find_init(cls)
        fn = src_of(owner.__dict__["__init__"])
        self.owner = owner
        self.glob = sys.modules[owner.__module__].__dict__
        # bind defaults
        a = fn.args
        names = [x.arg for x in a.args]
        defaults = dict(zip(names[len(names)-len(a.defaults):], a.defaults))
        for n, dv in defaults.items():
            if n not in env: env[n] = self.ev(dv, env)
        self.block(fn.body, env, owner)
    def block(self, stmts, env, owner):
        for st in stmts:
            self.stmt(st, env, owner)
    def stmt(self, st, env, owner):
        if isinstance(st, ast.Expr):
            if isinstance(st.value, ast.Constant): return
            self.ev(st.value, env, owner)
        elif isinstance(st, (ast.Assign, ast.AnnAssign)):
            val = self.ev(st.value, env, owner)
            targets = st.targets if isinstance(st, ast.Assign) else [st.target]
            for t in targets: self.assign(t, val, env)
        elif isinstance(st, ast.If):
            cond = self.ev(st.test, env, owner)
            # fork: record both branches as variants
            e1, e2 = Env(env), Env(env)
            a1, a2 = dict(self.attrs), dict(self.attrs)
            self.attrs = a1; self.block(st.body, e1, owner); a1 = self.attrs
            self.attrs = a2; self.block(st.orelse, e2, owner); a2 = self.attrs
            merged = {}
            for k in set(a1) | set(a2):
                if a1.get(k) == a2.get(k): merged[k] = a1.get(k)
                else: merged[k] = S("cond", test=cond, then=a1.get(k), orelse=a2.get(k))
            self.attrs = merged
            for k in set(e1) | set(e2):
                env[k] = e1.get(k) if e1.get(k) == e2.get(k) else S("cond", test=cond, then=e1.get(k), orelse=e2.get(k))
        elif isinstance(st, ast.Raise):
            self.raises.append(ast.unparse(st.exc)[:60] if st.exc else "reraise")
        else:
            self.effects.append(UNKNOWN("stmt " + type(st).__name__))
    def assign(self, t, val, env):
        if isinstance(t, ast.Name): env[t.id] = val
        elif isinstance(t, ast.Attribute) and isinstance(t.value, ast.Name) and t.value.id == "self":
            self.attrs[t.attr] = val
        elif isinstance(t, ast.Tuple) and val.get("tag") == "tuple" and len(val["items"]) == len(t.elts):
            for tt, vv in zip(t.elts, val["items"]): self.assign(tt, vv, env)
        elif isinstance(t, ast.Subscript) and isinstance(t.value, ast.Attribute) and ast.unparse(t.value) == "self.children":
            ch = self.attrs.get("children", S("dict", items=[]))
            key = self.ev(t.slice, env)
            self.attrs["children"] = S("dict", items=ch.get("items", []) + [[key, val]])
        else:
            self.effects.append(UNKNOWN("assign " + ast.unparse(t)))
    def ev(self, e, env, owner=None):
        owner = owner or self.owner
        if isinstance(e, ast.Constant): return S("const", value=e.value)
        if isinstance(e, ast.Name):
            if e.id in env: return env[e.id]
            if e.id in self.glob or hasattr(__builtins__, e.id) or e.id in dir(__builtins__): return S("global", name=e.id)
            return UNKNOWN("name " + e.id)
        if isinstance(e, ast.Attribute):
            base = self.ev(e.value, env, owner)
            if base.get("tag") == "self":
                return self.attrs.get(e.attr, S("selfattr", name=e.attr))
            return S("attr", base=base, name=e.attr)
        if isinstance(e, ast.Subscript):
            base = self.ev(e.value, env, owner); key = self.ev(e.slice, env, owner)
            if base.get("tag") == "state" and key.get("tag") == "const":
                return S("state", path=base["path"] + [key["value"]])
            return S("index", base=base, key=key)
        if isinstance(e, ast.Dict):
            return S("dict", items=[[self.ev(k, env, owner), self.ev(v, env, owner)] for k, v in zip(e.keys, e.values)])
        if isinstance(e, (ast.List, ast.Tuple)):
            return S("tuple" if isinstance(e, ast.Tuple) else "list", items=[self.ev(x, env, owner) for x in e.elts])
        if isinstance(e, ast.BinOp) and isinstance(e.op, ast.Add):
            return S("add", left=self.ev(e.left, env, owner), right=self.ev(e.right, env, owner))
        if isinstance(e, ast.JoinedStr): return S("fstring", src=ast.unparse(e))
        if isinstance(e, ast.Compare): return S("compare", src=ast.unparse(e))
        if isinstance(e, ast.BoolOp): return S("boolop", src=ast.unparse(e))
        if isinstance(e, (ast.ListComp, ast.DictComp, ast.GeneratorExp)):
            gen = e.generators[0]
            it = self.ev(gen.iter, env, owner)
            env2 = Env(env)
            # element variable(s) bound to 'elem of it'
            if isinstance(gen.target, ast.Name): env2[gen.target.id] = S("elem", of=it)
            elif isinstance(gen.target, ast.Tuple):
                for i, t in enumerate(gen.target.elts): env2[t.id] = S("elem", of=it, part=i)
            if isinstance(e, ast.DictComp):
                return S("dictcomp", key=self.ev(e.key, env2, owner), value=self.ev(e.value, env2, owner), over=it)
            return S("listcomp", elt=self.ev(e.elt, env2, owner), over=it)
        if isinstance(e, ast.Call):
            return self.call(e, env, owner)
        return UNKNOWN("expr " + type(e).__name__)
    def call(self, e, env, owner):
        fsrc = ast.unparse(e.func)
        args = [self.ev(a, env, owner) for a in e.args]
        kw = {k.arg: self.ev(k.value, env, owner) for k in e.keywords}
        # super().__init__(...)
        if fsrc == "super().__init__":
            parent = [k for k in owner.__mro__[1:] if "__init__" in k.__dict__][0]
            pfn = src_of(parent.__dict__["__init__"])
            names = [x.arg for x in pfn.args.args][1:]
            env2 = Env(self=S("self"))
            for n, v in zip(names, args): env2[n] = v
            for k, v in kw.items(): env2[k] = v
            dflt = dict(zip(names[len(names)-len(pfn.args.defaults):], pfn.args.defaults))
            for n, dv in dflt.items():
                if n not in env2: env2[n] = self.ev(dv, env2)
            saved = (self.owner, self.glob)
            self.owner, self.glob = parent, sys.modules[parent.__module__].__dict__
            self.block(pfn.body, env2, parent)
            self.owner, self.glob = saved
            return S("none")
        if fsrc == "self._get_trusted":
            t = args[0] if args else kw.get("trusted"); d = args[1] if len(args) > 1 else kw.get("default")
            return S("T", extra=(t.get("extra", []) if t.get("tag") == "T" else [UNKNOWN("trusted arg")]) + [d]) if t.get("tag") == "T" else S("trustexpr", caller=t, default=d)
        if fsrc == "get_tree":
            return S("tree", state=args[0], trusted=kw.get("trusted", args[2] if len(args) > 2 else None))
        if fsrc in ("state.get",):
            return S("state", path=[args[0]["value"]], optional=True)
        if fsrc == "load_context.memoize": return S("memoize")
        if fsrc == "load_context.get_object": return S("memo_lookup", key=args[0])
        if fsrc == "load_context.src.read": return S("zipread", name=args[0])
        if fsrc == "io.BytesIO": return S("bytesio", of=args[0])
        if fsrc in ("get_module", "id", "isinstance", "len"): return S("pure", fn=fsrc, args=args)
        if fsrc in ("TypeNode",):
            return S("synth_node", cls=fsrc, state=args[0], trusted=kw.get("trusted"))
        if fsrc in ("ImportError", "TypeError", "ValueError"): return S("exc", cls=fsrc)
        if fsrc.endswith(".items") or fsrc.endswith(".values"): return S("iter", of=self.ev(e.func.value, env, owner), how=fsrc.rsplit(".", 1)[1])
        eff = S("call", fn=fsrc, args=args, kw=kw)
        self.effects.append(eff)
        return eff

def summarize(cls):
    x = InitExec(cls).run()
    return {"class": cls.__name__, "module": cls.__module__, "trusted": x.attrs.get("trusted"),
            "children": x.attrs.get("children"), "other_attrs": sorted(set(x.attrs) - {"trusted", "children"}),
            "init_effects": x.effects, "raises": x.raises}

out = {}
for (loader, proto), cls in sorted(NODE_TYPE_MAPPING.items()):
    out[f"{loader}@{proto}"] = summarize(cls)
json.dump(out, open("specs.json", "w"), indent=1, default=str)
for k, v in out.items():
    def short(s): return json.dumps(s, default=str)[:230]
    print("==", k); print("  trusted :", short(v["trusted"])); print("  children:", short(v["children"])); print("  effects :", short(v["init_effects"]))
