import pickle, os, logging, io, sys, warnings
warnings.simplefilter("ignore")
import numpy as np
import skops.io as sio
from skops.cli.entrypoint import main_cli
from sklearn.utils import all_estimators
from sklearn.linear_model import LogisticRegression
# C17
class Mine:
    def __init__(self): self.x = 1
import __main__
pickle.dump({"m": LogisticRegression().fit([[0],[1]],[0,1]), "u": Mine()}, open("in.pkl","wb"))
before = open("in.pkl","rb").read()
logging.getLogger().handlers.clear()
h = logging.StreamHandler(io.StringIO()); logging.getLogger().addHandler(h)
main_cli(["convert","in.pkl"]); print("default out exists:", os.path.exists("in.skops"), "| input same:", open("in.pkl","rb").read()==before)
print("log:", h.stream.getvalue()[:200].replace("\n"," | "))
print("untrusted:", sio.get_untrusted_types(file="in.skops"))
pickle.dump({"f": lambda: 0, "l": [open]}, open("bad.pkl","wb")) if False else None
class Bad:
    def __getstate__(self): raise RuntimeError("boom")
    def __reduce__(self): return (Bad, ())
pickle.dump([Bad()], open("bad.pkl","wb"))
open("bad.skops","wb").write(b"OLD")
try: main_cli(["convert","bad.pkl"])
except Exception as e: print("convert bad raised", type(e).__name__, "| out:", open("bad.skops","rb").read())
# C07 census: unfitted default-constructed estimators needing trust
need = {}
tot = 0
for name, cls in all_estimators():
    try: est = cls()
    except Exception: continue
    tot += 1
    try:
        u = sio.get_untrusted_types(data=sio.dumps(est))
        if u: need[name] = u
    except Exception as e: need[name] = "DUMP-EXC " + type(e).__name__
print("default-constructed:", tot, "need trust:", len(need)); print({k:v for k,v in list(need.items())[:40]})
